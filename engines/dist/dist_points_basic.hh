// Parameter points for src/celeritas/random/distribution/* and Selector (C15).
// Every target CDF/PMF/moment below is the analytic definition from the class's doc comment.
#pragma once

#include "corecel/cont/Array.hh"
#include "corecel/math/ArrayUtils.hh"
#include "celeritas/Types.hh"
#include "celeritas/random/Selector.hh"
#include "celeritas/random/distribution/BernoulliDistribution.hh"
#include "celeritas/random/distribution/DeltaDistribution.hh"
#include "celeritas/random/distribution/ExponentialDistribution.hh"
#include "celeritas/random/distribution/GammaDistribution.hh"
#include "celeritas/random/distribution/InverseSquareDistribution.hh"
#include "celeritas/random/distribution/IsotropicDistribution.hh"
#include "celeritas/random/distribution/NormalDistribution.hh"
#include "celeritas/random/distribution/PoissonDistribution.hh"
#include "celeritas/random/distribution/RadialDistribution.hh"
#include "celeritas/random/distribution/ReciprocalDistribution.hh"
#include "celeritas/random/distribution/RejectionSampler.hh"
#include "celeritas/random/distribution/UniformBoxDistribution.hh"
#include "celeritas/random/distribution/UniformRealDistribution.hh"

#include "dist_run.hh"

namespace distv
{
using namespace celeritas;

// Wrap a scalar distribution (constructed in place; several celeritas distributions are not
// copyable)
template<class D>
struct Scalar
{
    D d;
    template<class... A>
    explicit Scalar(A... a) : d(a...)
    {
    }
    void operator()(DistEngine& e, double* o) { o[0] = double(d(e)); }
};

// central moments from raw moments
inline void set_raw_moments(Marginal& m, double r1, double r2, double r3, double r4)
{
    m.have_mom = true;
    m.m1 = r1;
    m.mu2 = r2 - r1 * r1;
    m.mu3 = r3 - 3 * r1 * r2 + 2 * r1 * r1 * r1;
    m.mu4 = r4 - 4 * r1 * r3 + 6 * r1 * r1 * r2 - 3 * r1 * r1 * r1 * r1;
}

inline Marginal uniform_marginal(double a, double b, std::string label = "")
{
    Marginal m;
    m.label = label;
    // documented: a <= x < b
    m.sup.lo = a;
    m.sup.hi = b;
    m.sup.hi_open = true;
    double d = b - a;
    m.cdf = [a, d](double x) { return x <= a ? 0.0 : x >= a + d ? 1.0 : (x - a) / d; };
    m.have_mom = true;
    m.m1 = a + 0.5 * d;
    m.mu2 = d * d / 12;
    m.mu3 = 0;
    m.mu4 = d * d * d * d / 80;
    // distribution tests need a fine-grained set of representable values in [a,b)
    double ulp = std::max(std::fabs(a), std::fabs(b)) * eps;
    m.stat = d > 0 && ulp / d < 1e-9;
    return m;
}

//---------------------------------------------------------------------------//
inline void points_uniform(Ctx& C, verif::Rng& g)
{
    auto run = [&](std::string regime, double a, double b) {
        PointSpec P;
        P.dist = "UniformRealDistribution";
        P.branch = "fma";
        P.regime = regime;
        P.params = {{"a", a}, {"b", b}};
        P.marg = {uniform_marginal(a, b)};
        P.draw = draw_exact(2);
        run_point(C, P, [=] { return Scalar<UniformRealDistribution<double>>(a, b); });
    };
    {
        PointSpec P;
        P.dist = "UniformRealDistribution";
        P.branch = "fma";
        P.regime = "default-unit";
        P.params = {{"a", 0}, {"b", 1}};
        P.marg = {uniform_marginal(0, 1)};
        P.draw = draw_exact(2);
        run_point(C, P, [] { return Scalar<UniformRealDistribution<double>>(); });
    }
    run("symmetric", -1, 1);
    run("one-two", 1, 2);  // u = 1-2^-53 rounds to b (tie to even)
    run("negative", -7.5, -2.25);
    run("wide", -1e300, 1e300);
    run("tiny", 0, 1e-300);
    run("narrow-far", 1e6, 1e6 + 1e-3);
    run("granular", 1e15, 1e15 + 1);  // only a few representable values; support/draws only
    run("degenerate", 3.5, 3.5);
    for (int i = 0; i < 3; ++i)
    {
        double a = g.uniform(-100, 100), w = g.loguniform(1e-3, 1e3);
        run("random", a, a + w);
    }
}

//---------------------------------------------------------------------------//
inline void points_exponential(Ctx& C, verif::Rng& g)
{
    auto spec = [&](std::string regime, double lambda) {
        PointSpec P;
        P.dist = "ExponentialDistribution";
        P.branch = "log";
        P.regime = regime;
        P.params = {{"lambda", lambda}};
        Marginal m;
        // documented: f = lambda exp(-lambda x) for x >= 0  (real x: +inf is not a member)
        m.sup.lo = 0;
        m.cdf = [lambda](double x) { return x <= 0 ? 0.0 : -std::expm1(-lambda * x); };
        double il = 1 / lambda;
        m.have_mom = true;
        m.m1 = il;
        m.mu2 = il * il;
        m.mu3 = 2 * il * il * il;
        m.mu4 = 9 * il * il * il * il;
        P.marg = {m};
        P.draw = draw_exact(2);
        return P;
    };
    run_point(C, spec("default", 1.0), [] { return Scalar<ExponentialDistribution<double>>(); });
    auto run = [&](std::string regime, double lambda) {
        run_point(C, spec(regime, lambda),
                  [=] { return Scalar<ExponentialDistribution<double>>(lambda); });
    };
    run("small-lambda", 1e-6);
    run("large-lambda", 1e6);
    run("extreme-lambda", 1e-300);
    for (int i = 0; i < 3; ++i)
        run("random", g.loguniform(1e-3, 1e3));
}

//---------------------------------------------------------------------------//
inline Marginal normal_marginal(double mean, double sd)
{
    Marginal m;
    m.cdf = [mean, sd](double x) { return dstat::norm_cdf((x - mean) / sd); };
    m.have_mom = true;
    m.m1 = mean;
    m.mu2 = sd * sd;
    m.mu3 = 0;
    m.mu4 = 3 * sd * sd * sd * sd;
    m.stat = std::fabs(mean) * eps / sd < 1e-9;
    return m;
}

inline void points_normal(Ctx& C, verif::Rng& g)
{
    // Box-Muller extremes: theta = pi/2, 3pi/2 with the smallest/largest radius argument
    std::vector<std::vector<double>> bm = {{0.25, u_tiny}, {0.75, u_tiny}, {0.25, 0.0},
                                           {0.0, 0.0}, {0.5, 0.0}, {0.75, u_max}};
    auto spec = [&](std::string regime, double mean, double sd) {
        PointSpec P;
        P.dist = "NormalDistribution";
        P.branch = "box-muller";
        P.regime = regime;
        P.params = {{"mean", mean}, {"stddev", sd}};
        P.marg = {normal_marginal(mean, sd)};
        P.draw.kind = DrawModel::boxmuller;
        P.draw.expected = 2;
        P.scripts = bm;
        return P;
    };
    run_point(C, spec("default", 0, 1), [] { return Scalar<NormalDistribution<double>>(); });
    run_point(C, spec("mean-only-ctor", 2.5, 1),
              [] { return Scalar<NormalDistribution<double>>(2.5); });
    auto run = [&](std::string regime, double mean, double sd) {
        run_point(C, spec(regime, mean, sd),
                  [=] { return Scalar<NormalDistribution<double>>(mean, sd); });
    };
    run("far-narrow", 1e6, 1e-3);
    run("wide", -3.0, 1e8);
    run("tiny-sigma", 0.0, 1e-200);
    for (int i = 0; i < 3; ++i)
        run("random", g.uniform(-50, 50), g.loguniform(1e-2, 1e2));
}

//---------------------------------------------------------------------------//
inline Marginal gamma_marginal(double alpha, double beta)
{
    Marginal m;
    // documented: x > 0.  x == 0 is the rounding of samples below the smallest double (for
    // small alpha a non-negligible part of the mass): classed `edge`, not judged.
    m.sup.lo = 0;
    m.sup.lo_open = true;
    m.cdf = [alpha, beta](double x) { return x <= 0 ? 0.0 : dstat::gamma_p(alpha, x / beta); };
    m.have_mom = true;
    m.m1 = alpha * beta;
    m.mu2 = alpha * beta * beta;
    m.mu3 = 2 * alpha * beta * beta * beta;
    m.mu4 = 3 * alpha * (alpha + 2) * beta * beta * beta * beta;
    return m;
}
// Marsaglia-Tsang: acceptance >= 0.95 for alpha' >= 1; one normal (2 words on average) and
// one canonical (2 words) per iteration, +2 words for the alpha < 1 power correction.
inline DrawModel gamma_draws(double alpha)
{
    return draw_rejection((2 + 2) / 0.95 + 4 + (alpha < 1 ? 2 : 0));
}

inline void points_gamma(Ctx& C, verif::Rng& g)
{
    auto spec = [&](std::string regime, double alpha, double beta) {
        PointSpec P;
        P.dist = "GammaDistribution";
        P.branch = alpha < 1 ? "alpha<1" : "alpha>=1";
        P.regime = regime;
        P.params = {{"alpha", alpha}, {"beta", beta}};
        P.marg = {gamma_marginal(alpha, beta)};
        P.draw = gamma_draws(alpha);
        P.scripts = {{0.25, u_tiny, 0.5, 0.5}, {0.75, u_tiny, 0.5, 0.5}, {0.25, 0.0, 0.5, 0.5},
                     {0.1, 0.3, 0.0, 0.0}, {0.1, 0.3, u_max, u_max}};
        return P;
    };
    run_point(C, spec("default", 1, 1), [] { return Scalar<GammaDistribution<double>>(); });
    auto run = [&](std::string regime, double alpha, double beta) {
        run_point(C, spec(regime, alpha, beta),
                  [=] { return Scalar<GammaDistribution<double>>(alpha, beta); });
    };
    run("alpha-tiny", 0.02, 1.0);
    run("alpha-small", 0.3, 2.0);
    run("alpha-just-below-1", std::nextafter(1.0, 0.0), 1.0);
    run("alpha-0.999", 0.999, 1e-3);
    run("alpha-1.001", 1.001, 1e3);
    run("alpha-moderate", 2.5, 0.5);
    run("alpha-large", 1000.0, 1.0);
    run("alpha-huge", 1e5, 1e-5);
    for (int i = 0; i < 3; ++i)
        run("random-alpha<1", g.uniform(0.05, 1.0), g.loguniform(1e-3, 1e3));
    for (int i = 0; i < 3; ++i)
        run("random-alpha>=1", g.loguniform(1.0, 100.0), g.loguniform(1e-3, 1e3));
}

//---------------------------------------------------------------------------//
// Documented: Knuth's direct method for lambda <= 16, "Gaussian approximation rounded to
// nearest integer" (as G4Poisson) above.  Targets: exact Poisson pmf, resp. the pmf of
// round(N(lambda, sqrt lambda)) with all mass below 1/2 on k = 0 (G4Poisson returns 0 for
// negative values; the result type is unsigned).
inline Marginal poisson_marginal(double lambda)
{
    Marginal m;
    m.discrete = true;
    m.sup.lo = 0;
    m.kmin = 0;
    m.kmode = std::floor(lambda);
    if (lambda <= 16)
    {
        double ll = std::log(lambda);
        m.pmf = [lambda, ll](double k) {
            return k < 0 ? 0.0 : std::exp(k * ll - lambda - std::lgamma(k + 1));
        };
    }
    else
    {
        double sd = std::sqrt(lambda);
        m.pmf = [lambda, sd](double k) {
            if (k < 0)
                return 0.0;
            double hi = (k + 0.5 - lambda) / sd;
            if (k == 0)
                return dstat::norm_cdf(hi);
            return dstat::norm_between((k - 0.5 - lambda) / sd, hi);
        };
    }
    return m;
}

inline void points_poisson(Ctx& C, verif::Rng& g)
{
    auto run = [&](std::string regime, double lambda, double nmult = 1) {
        PointSpec P;
        P.dist = "PoissonDistribution";
        bool direct = lambda <= 16;
        P.branch = direct ? "direct" : "gaussian";
        P.regime = regime;
        P.params = {{"lambda", lambda}, {"lambda_hex", verif::hexd(lambda)}};
        P.marg = {poisson_marginal(lambda)};
        P.nmult = nmult;
        if (direct)
        {
            P.draw.kind = DrawModel::poisson_direct;
            P.draw.expected = 2 * (lambda + 1);
            if (lambda > 4)
                P.thorough_n = 1000000;
        }
        else
        {
            P.draw.kind = DrawModel::boxmuller;
            P.draw.expected = 2;
            P.scripts = {{0.75, u_tiny}, {0.25, u_tiny}, {0.75, 2 * u_tiny}};
        }
        run_point(C, P, [=] { return Scalar<PoissonDistribution<double>>(lambda); });
    };
    {
        PointSpec P;
        P.dist = "PoissonDistribution";
        P.branch = "direct";
        P.regime = "default";
        P.params = {{"lambda", 1}};
        P.marg = {poisson_marginal(1)};
        P.draw.kind = DrawModel::poisson_direct;
        run_point(C, P, [] { return Scalar<PoissonDistribution<double>>(); });
    }
    run("lambda-tiny", 1e-3);
    run("lambda-small", 0.1);
    run("lambda-5", 5.0);
    run("below-threshold", 15.9);
    run("at-threshold", 16.0);
    // negative Gaussian values are most likely right above the switch-over (-4.4 sigma)
    run("just-above-threshold", std::nextafter(16.0, 17.0), 30);
    run("above-threshold", 16.5, 10);
    run("lambda-20", 20.0);
    run("lambda-64", 64.0);
    run("lambda-1e3", 1e3);
    run("lambda-1e6", 1e6);
    for (int i = 0; i < 3; ++i)
        run("random-direct", g.uniform(0.5, 16.0));
    for (int i = 0; i < 2; ++i)
        run("random-near-threshold", g.uniform(12.0, 16.0));
    for (int i = 0; i < 3; ++i)
        run("random-gaussian", g.loguniform(16.01, 300.0));
}

//---------------------------------------------------------------------------//
inline void points_reciprocal(Ctx& C, verif::Rng& g)
{
    auto spec = [&](std::string regime, double a, double b) {
        PointSpec P;
        P.dist = "ReciprocalDistribution";
        P.branch = "exp";
        P.regime = regime;
        P.params = {{"a", a}, {"b", b}};
        Marginal m;
        double lo = std::min(a, b), hi = std::max(a, b);
        double L = std::log(hi / lo);
        // documented [a,b), a <= x < b; for reversed bounds the documented equivalence
        // (xi' = 1 - xi) gives (b, a]: both ends are accepted then.  Rounding allowance:
        // x = a exp(l xi) with l = fl(log(fl(fl(1/a) b))): the exponent carries an absolute
        // error <= eps (argument of log) + L eps/2 (rounding of log) + L eps/2 (product with
        // xi), while the gap left by xi <= 1 - 2^-53 is only L eps/2; exp and the final
        // product add <= 1.5 ulp.  A sample may therefore pass the end by up to
        // (1 + L/2) eps + 1.5 ulp relative: slack = 4 + ceil(L) ulps.
        m.sup.lo = lo;
        m.sup.hi = hi;
        m.sup.hi_open = a < b;
        m.sup.slack_ulps = 4 + int(std::ceil(L));
        m.cdf = [lo, hi, L](double x) { return x <= lo ? 0.0 : x >= hi ? 1.0 : std::log(x / lo) / L; };
        auto raw = [&](int n) { return (std::pow(hi, n) - std::pow(lo, n)) / (n * L); };
        if (hi / lo < 1e3)
            set_raw_moments(m, raw(1), raw(2), raw(3), raw(4));
        m.stat = L > 1e-6;
        P.marg = {m};
        P.draw = draw_exact(2);
        return P;
    };
    auto run = [&](std::string regime, double a, double b) {
        run_point(C, spec(regime, a, b), [=] { return Scalar<ReciprocalDistribution<double>>(a, b); });
    };
    run_point(C, spec("single-arg", 1.0, 0.01),
              [] { return Scalar<ReciprocalDistribution<double>>(0.01); });
    run("moderate", 0.5, 20.0);
    run("huge-ratio", 1e-10, 1e10);
    run("extreme-ratio", 1e-150, 1e150);
    run("ratio-near-1", 1.0, 1.0 + 1e-3);
    run("ratio-very-near-1", 3.0, 3.0 * (1 + 1e-9));
    run("reversed", 20.0, 0.5);
    for (int i = 0; i < 3; ++i)
    {
        double a = g.loguniform(1e-6, 1e6);
        run("random", a, a * g.loguniform(1.01, 1e4));
    }
}

//---------------------------------------------------------------------------//
inline void points_inverse_square(Ctx& C, verif::Rng& g)
{
    auto run = [&](std::string regime, double a, double b) {
        PointSpec P;
        P.dist = "InverseSquareDistribution";
        P.branch = "ab/uniform";
        P.regime = regime;
        P.params = {{"a", a}, {"b", b}};
        Marginal m;
        // documented a <= x < b.  The formula x = ab/(a + xi(b-a)) gives b at xi = 0 and
        // tends to a for xi -> 1, i.e. (a, b]: end points are `edge` (not judged) and a
        // rounding allowance of 3 ulps (product, fma, quotient) applies.
        m.sup.lo = a;
        m.sup.hi = b;
        m.sup.hi_open = true;
        m.sup.slack_ulps = 3;
        m.cdf = [a, b](double x) {
            return x <= a ? 0.0 : x >= b ? 1.0 : b * (x - a) / (x * (b - a));
        };
        if (b > a && b / a < 1e3)
        {
            double r1 = a * b / (b - a) * std::log(b / a);
            set_raw_moments(m, r1, a * b, a * b * (a + b) / 2, a * b * (a * a + a * b + b * b) / 3);
        }
        m.stat = (b - a) / b > 1e-6;
        P.marg = {m};
        P.draw = draw_exact(2);
        run_point(C, P, [=] { return Scalar<InverseSquareDistribution<double>>(a, b); });
    };
    run("moderate", 1.0, 10.0);
    run("huge-ratio", 1e-5, 1e5);
    run("narrow", 2.0, 2.0 + 1e-3);
    run("degenerate", 5.0, 5.0);
    run("tiny-scale", 1e-100, 3e-100);
    for (int i = 0; i < 3; ++i)
    {
        double a = g.loguniform(1e-6, 1e6);
        run("random", a, a * g.loguniform(1.01, 1e4));
    }
}

//---------------------------------------------------------------------------//
inline void points_radial(Ctx& C, verif::Rng& g)
{
    auto run = [&](std::string regime, double R) {
        PointSpec P;
        P.dist = "RadialDistribution";
        P.branch = "cbrt";
        P.regime = regime;
        P.params = {{"radius", R}};
        Marginal m;
        // "uniform radial distribution" in a ball of the given radius: 0 <= r <= R.
        // r = cbrt(xi) R: glibc's cbrt is accurate to 1 ulp (not correctly rounded: it returns
        // 1 + 2^-52 for xi = 1 - 2^-52), the product adds 1/2 ulp: slack 2 ulps.
        m.sup.lo = 0;
        m.sup.hi = R;
        m.sup.slack_ulps = 2;
        m.cdf = [R](double r) { return r <= 0 ? 0.0 : r >= R ? 1.0 : (r / R) * (r / R) * (r / R); };
        set_raw_moments(m, 3 * R / 4, 3 * R * R / 5, R * R * R / 2, 3 * R * R * R * R / 7);
        P.marg = {m};
        P.draw = draw_exact(2);
        run_point(C, P, [=] { return Scalar<RadialDistribution<double>>(R); });
    };
    run("unit", 1.0);
    run("tiny", 1e-200);
    run("huge", 1e200);
    run("random", g.loguniform(1e-3, 1e3));
}

//---------------------------------------------------------------------------//
// |norm - 1| of a double[3] evaluated in long double
inline double norm_err(double const* v)
{
    long double n2 = (long double)v[0] * v[0] + (long double)v[1] * v[1] + (long double)v[2] * v[2];
    return double(std::fabs(std::sqrt(n2) - 1.0L));
}
// from_spherical: v = (s cos phi, s sin phi, c), s = sqrt(1 - c*c).  Rounding model on |v|^2:
// c*c (eps/2), 1 - c*c (eps/2 absolute since the result <= 1), sqrt (eps/2 relative = eps on
// s^2), sin/cos (< 1 ulp each = 2 eps on the squares), products (eps/2 each = eps on the
// squares): < 5 eps on |v|^2, 2.5 eps on |v|.  Tolerance 8 eps (x3 margin).
constexpr double tol_from_spherical = 8 * eps;
// make_unit_vector: dot (3 fused/plain ops, <= 1.5 eps), sqrt (eps/2), reciprocal (eps/2),
// three products (eps/2): |v| within ~2.5 eps.  Tolerance 6 eps.
constexpr double tol_make_unit = 6 * eps;

struct IsoSampler
{
    IsotropicDistribution<double> d;
    double err = 0;
    void operator()(DistEngine& e, double* o)
    {
        auto v = d(e);
        double a[3] = {v[0], v[1], v[2]};
        err = norm_err(a);
        o[0] = v[2];
        o[1] = std::atan2(v[1], v[0]);
        // joint 8x8 cell of (z, phi) -> independence of the two angles
        int iz = std::min(7, std::max(0, int((v[2] + 1) * 4)));
        int ip = std::min(7, std::max(0, int((o[1] + 3.141592653589793) / 6.283185307179586 * 8)));
        o[2] = iz * 8 + ip;
        o[3] = err;
    }
};

inline void points_isotropic(Ctx& C)
{
    PointSpec P;
    P.dist = "IsotropicDistribution";
    P.branch = "from_spherical";
    P.regime = "sphere";
    P.params = json::object();
    Marginal z = uniform_marginal(-1, 1, "costheta");
    z.sup.hi_open = false;
    constexpr double pi = 3.141592653589793;
    Marginal phi = uniform_marginal(-pi, pi, "phi");
    phi.sup.hi_open = false;
    phi.sup.slack_ulps = 1;  // atan2 rounding at +-pi
    Marginal joint;
    joint.label = "joint";
    joint.discrete = true;
    joint.sup.lo = 0;
    joint.sup.hi = 63;
    joint.kmin = 0;
    joint.kmax = 63;
    joint.pmf = [](double k) { return (k >= 0 && k < 64) ? 1.0 / 64 : 0.0; };
    P.marg = {z, phi, joint};
    P.draw = draw_exact(4);
    P.extra = [](double const* x) -> char const* {
        return (x[3] <= tol_from_spherical) ? nullptr : "unit-vector";
    };
    run_point(C, P, [] { return IsoSampler{}; });
}

struct BoxSampler
{
    UniformBoxDistribution<double> d;
    BoxSampler(Array<double, 3> lo, Array<double, 3> hi) : d(lo, hi) {}
    void operator()(DistEngine& e, double* o)
    {
        auto v = d(e);
        o[0] = v[0];
        o[1] = v[1];
        o[2] = v[2];
    }
};

inline void points_box(Ctx& C, verif::Rng& g)
{
    auto run = [&](std::string regime, Array<double, 3> lo, Array<double, 3> hi) {
        PointSpec P;
        P.dist = "UniformBoxDistribution";
        P.branch = "3x-uniform";
        P.regime = regime;
        P.params = {{"lower", verif::jarr3(lo)}, {"upper", verif::jarr3(hi)}};
        char const* names[] = {"x", "y", "z"};
        for (int i = 0; i < 3; ++i)
        {
            Marginal m = uniform_marginal(lo[i], hi[i], names[i]);
            m.sup.hi_open = false;  // "a point uniformly in a box": closed box
            P.marg.push_back(m);
        }
        P.draw = draw_exact(6);
        run_point(C, P, [=] { return BoxSampler(lo, hi); });
    };
    run("unit-cube", {0, 0, 0}, {1, 1, 1});
    run("offset", {-5, 2, 100}, {-4, 7, 100.5});
    run("flat", {-1, -1, 3}, {1, 1, 3});
    for (int i = 0; i < 2; ++i)
    {
        Array<double, 3> lo, hi;
        for (int k = 0; k < 3; ++k)
        {
            lo[k] = g.uniform(-100, 100);
            hi[k] = lo[k] + g.loguniform(1e-2, 1e3);
        }
        run("random", lo, hi);
    }
}

//---------------------------------------------------------------------------//
inline Marginal bool_marginal(double p_true)
{
    Marginal m;
    m.discrete = true;
    m.sup.lo = 0;
    m.sup.hi = 1;
    m.kmin = 0;
    m.kmax = 1;
    m.pmf = [p_true](double k) { return k == 1 ? p_true : k == 0 ? 1 - p_true : 0.0; };
    return m;
}

struct Bern2
{
    BernoulliDistribution d;
    Bern2(double t, double f) : d(t, f) {}
    void operator()(DistEngine& e, double* o) { o[0] = d(e) ? 1 : 0; }
};

inline void points_bernoulli(Ctx& C, verif::Rng& g)
{
    auto run = [&](std::string regime, double p) {
        PointSpec P;
        P.dist = "BernoulliDistribution";
        P.branch = "p";
        P.regime = regime;
        P.params = {{"p_true", p}};
        P.marg = {bool_marginal(p)};
        P.draw = draw_exact(2);
        run_point(C, P, [=] { return Scalar<BernoulliDistribution>(p); });
    };
    run("p=0", 0.0);
    run("p=1", 1.0);
    run("p=half", 0.5);
    run("p-small", 1e-3);
    run("p-tiny", 1e-12);
    run("p-near-1", 1 - 1e-3);
    for (int i = 0; i < 2; ++i)
        run("random", g.uniform(0.01, 0.99));
    auto run2 = [&](std::string regime, double t, double f) {
        PointSpec P;
        P.dist = "BernoulliDistribution";
        P.branch = "scaled";
        P.regime = regime;
        P.params = {{"scaled_true", t}, {"scaled_false", f}};
        P.marg = {bool_marginal(t / (t + f))};
        P.draw = draw_exact(2);
        run_point(C, P, [=] { return Bern2(t, f); });
    };
    run2("scaled-1:35", 1, 35);
    run2("scaled-only-true", 5, 0);
    run2("scaled-only-false", 0, 5);
    run2("scaled-random", g.loguniform(1e-3, 1e3), g.loguniform(1e-3, 1e3));
}

//---------------------------------------------------------------------------//
// RejectionSampler(f, fmax)(rng) is true ("reject, try again") with probability 1 - f/fmax
struct RejLoop
{
    // sample x ~ U(0,1), accept with probability f(x)/fmax using RejectionSampler
    int kind;
    void operator()(DistEngine& e, double* o)
    {
        double x, f, fmax;
        do
        {
            x = generate_canonical<double>(e);
            if (kind == 0)
            {
                f = 3 * x * x;
                fmax = 3;
            }
            else if (kind == 1)
            {
                f = 1 + 0.01 * x;
                fmax = 1.01;
            }
            else
            {
                f = 100 * std::pow(x, 99);
                fmax = 100;
            }
        } while (RejectionSampler<double>(f, fmax)(e));
        o[0] = x;
    }
};

inline void points_rejection(Ctx& C, verif::Rng& g)
{
    auto run = [&](std::string regime, double f, double fmax) {
        PointSpec P;
        P.dist = "RejectionSampler";
        P.branch = "f<fmax*u";
        P.regime = regime;
        P.params = {{"f", f}, {"fmax", fmax}};
        P.marg = {bool_marginal(1 - f / fmax)};
        P.draw = draw_exact(2);
        run_point(C, P, [=] { return Scalar<RejectionSampler<double>>(f, fmax); });
    };
    run("efficiency-0", 0.0, 2.0);
    run("efficiency-1", 2.0, 2.0);
    run("efficiency-1e-6", 1e-6, 1.0);
    run("efficiency-1-1e-6", 1 - 1e-6, 1.0);
    run("efficiency-half", 3.0, 6.0);
    run("efficiency-random", g.uniform(0.01, 0.99) * 7.0, 7.0);
    {
        PointSpec P;
        P.dist = "RejectionSampler";
        P.branch = "f<fmax*u";
        P.regime = "normalized-ctor";
        P.params = {{"f", 0.3}};
        P.marg = {bool_marginal(0.7)};
        P.draw = draw_exact(2);
        run_point(C, P, [] { return Scalar<RejectionSampler<double>>(0.3); });
    }
    // whole rejection loops with known target density and efficiency
    struct L
    {
        char const* regime;
        int kind;
        double eff;
        std::function<double(double)> cdf;
    };
    std::vector<L> loops = {
        {"loop-eff-1/3", 0, 1.0 / 3, [](double x) { return x * x * x; }},
        {"loop-eff-0.995", 1, 1.005 / 1.01, [](double x) { return (x + 0.005 * x * x) / 1.005; }},
        {"loop-eff-0.01", 2, 0.01, [](double x) { return std::pow(x, 100); }},
    };
    for (auto const& l : loops)
    {
        PointSpec P;
        P.dist = "RejectionSampler";
        P.branch = "loop";
        P.regime = l.regime;
        P.params = {{"efficiency", l.eff}};
        Marginal m;
        m.sup.lo = 0;
        m.sup.hi = 1;
        m.sup.hi_open = true;
        auto cdf = l.cdf;
        m.cdf = [cdf](double x) { return x <= 0 ? 0.0 : x >= 1 ? 1.0 : cdf(x); };
        P.marg = {m};
        P.draw = draw_rejection(4 / l.eff);
        if (l.eff < 0.1)
            P.thorough_n = 400000;
        int kind = l.kind;
        run_point(C, P, [=] { return RejLoop{kind}; });
    }
}

//---------------------------------------------------------------------------//
struct SelSampler
{
    std::vector<double> const* w;
    double total;
    bool opaque;
    void operator()(DistEngine& e, double* o)
    {
        auto const& ww = *w;
        if (opaque)
        {
            auto sel = make_selector([&ww](ElementId i) { return ww[i.get()]; },
                                     ElementId{size_type(ww.size())}, total);
            ElementId r = sel(e);
            o[0] = r ? double(r.get()) : -1.0;
        }
        else
        {
            auto sel = make_selector([&ww](size_type i) { return ww[i]; }, size_type(ww.size()),
                                     total);
            o[0] = double(sel(e));
        }
    }
};

inline void points_selector(Ctx& C, verif::Rng& g)
{
    auto run = [&](std::string regime, std::vector<double> w, bool opaque, double total_scale = 1,
                   bool normalise = false) {
        // total accumulated exactly like the documented/debug-checked sum (left to right)
        double tot = 0;
        for (double x : w)
            tot += x;
        if (normalise)
        {
            for (double& x : w)
                x /= tot;
            tot = 0;
            for (double x : w)
                tot += x;
        }
        double const total = normalise ? 1.0 : tot * total_scale;
        PointSpec P;
        P.dist = "Selector";
        P.branch = opaque ? "opaque-id" : "index";
        P.regime = regime;
        P.params = {{"size", w.size()}, {"total", total},
                    {"weights", w.size() <= 40 ? json(w) : json("(omitted)")}};
        Marginal m;
        m.discrete = true;
        // valid indices: 0 <= i < size
        m.sup.lo = 0;
        m.sup.hi = double(w.size()) - 1;
        m.kmin = 0;
        m.kmax = double(w.size()) - 1;
        auto wp = std::make_shared<std::vector<double>>(w);
        double const t = tot;
        m.pmf = [wp, t](double k) {
            return (k >= 0 && k < double(wp->size())) ? (*wp)[std::size_t(k)] / t : 0.0;
        };
        m.stat = total_scale == 1;  // an inconsistent total has no defined target
        P.marg = {m};
        P.draw = draw_exact(2);
        run_point(C, P, [=] { return SelSampler{wp.get(), total, opaque}; });
    };
    auto rnd = [&](std::size_t n) {
        std::vector<double> w(n);
        for (auto& x : w)
            x = g.loguniform(1e-3, 1.0);
        return w;
    };
    run("size-1", {2.5}, false);
    run("size-2", {1.0, 3.0}, false);
    run("size-5-normalised", rnd(5), false, 1, true);
    run("size-37", rnd(37), false);
    run("size-1000", rnd(1000), false);
    run("leading-zero", {0.0, 0.0, 1.0, 2.0}, false);
    run("trailing-zero", {1.0, 2.0, 0.0, 0.0}, false);
    run("interior-zero", {1.0, 0.0, 0.0, 2.0, 0.0, 1.5}, false);
    run("dominant-last", {1e-9, 1e-9, 1.0}, false);
    run("dominant-first", {1.0, 1e-9, 1e-9}, false);
    run("equal-weights", std::vector<double>(16, 0.0625), false);
    run("opaque-size-1", {1.0}, true);
    run("opaque-size-7", rnd(7), true);
    run("opaque-trailing-zero", {0.25, 0.75, 0.0}, true);
    if (!C.asan)
    {
        // documented: "will never iterate off the end, even for incorrect values of the total"
        // (the debug build rejects such input in the constructor, so plain build only)
        run("total-too-large", rnd(6), false, 1.25);
        run("total-too-small", rnd(6), false, 0.8);
        run("opaque-total-too-large", rnd(4), true, 1.5);
    }
}

//---------------------------------------------------------------------------//
inline void points_delta(Ctx& C)
{
    PointSpec P;
    P.dist = "DeltaDistribution";
    P.branch = "value";
    P.regime = "constant";
    P.params = {{"value", 1.25}};
    Marginal m;
    m.sup.lo = 1.25;
    m.sup.hi = 1.25;
    m.stat = false;
    P.marg = {m};
    P.draw = draw_exact(0);
    run_point(C, P, [] { return Scalar<DeltaDistribution<double>>(1.25); });
}

}  // namespace distv
