// Parameter points for TsaiUrbanDistribution and the energy-loss fluctuation samplers (C15).
#pragma once

#include <memory>

#include "corecel/data/CollectionStateStore.hh"
#include "celeritas/Constants.hh"
#include "celeritas/Quantities.hh"
#include "celeritas/Units.hh"
#include "celeritas/em/distribution/EnergyLossDeltaDistribution.hh"
#include "celeritas/em/distribution/EnergyLossGammaDistribution.hh"
#include "celeritas/em/distribution/EnergyLossGaussianDistribution.hh"
#include "celeritas/em/distribution/EnergyLossHelper.hh"
#include "celeritas/em/distribution/EnergyLossUrbanDistribution.hh"
#include "celeritas/em/distribution/TsaiUrbanDistribution.hh"
#include "celeritas/em/params/FluctuationParams.hh"
#include "celeritas/mat/MaterialParams.hh"
#include "celeritas/mat/MaterialTrackView.hh"
#include "celeritas/phys/CutoffParams.hh"
#include "celeritas/phys/CutoffView.hh"
#include "celeritas/phys/PDGNumber.hh"
#include "celeritas/phys/ParticleParams.hh"
#include "celeritas/phys/ParticleTrackView.hh"

#include "dist_points_basic.hh"

namespace distv
{
using units::MevEnergy;
using units::MevMass;
using EnergySq = Quantity<UnitProduct<units::Mev, units::Mev>>;

//---------------------------------------------------------------------------//
// Tsai-Urban: u ~ C [ u exp(-a u) + d u exp(-3 a u) ] on [0, umax], a = 0.625, d = 27
// (Geant4 PRM 6.5.2), i.e. the mixture 1/4 Gamma(2, 1.6) + 3/4 Gamma(2, 1.6/3) truncated at
// umax = 2 (1 + E/m); cos(theta) = 1 - 2 (u/umax)^2 in [-1, 1].
inline double tsai_G(double u)
{
    auto g2 = [](double t) { return -std::expm1(-t) - t * std::exp(-t); };  // P(2,t)
    return 0.25 * g2(u / 1.6) + 0.75 * g2(u * 3 / 1.6);
}

inline void points_tsai(Ctx& C, verif::Rng& g)
{
    auto run = [&](std::string regime, double energy, double mass) {
        PointSpec P;
        P.dist = "TsaiUrbanDistribution";
        P.branch = "rejection";
        P.regime = regime;
        P.params = {{"energy_MeV", energy}, {"mass_MeV", mass}};
        double umax = 2 * (1 + energy / mass);
        double Gmax = tsai_G(umax);
        Marginal m;
        m.sup.lo = -1;
        m.sup.hi = 1;
        // P(cos <= c) = P(u >= umax sqrt((1-c)/2))
        m.cdf = [umax, Gmax](double c) {
            if (c <= -1)
                return 0.0;
            if (c >= 1)
                return 1.0;
            double u = umax * std::sqrt(0.5 * (1 - c));
            return 1 - tsai_G(u) / Gmax;
        };
        // cos(theta) values near 1 are spaced eps apart while the bulk sits at 1-cos ~
        // 2/umax^2: distribution tests only while eps umax^2/2 < 1e-6
        m.stat = eps * umax * umax / 2 < 1e-6;
        P.marg = {m};
        // 3 canonicals per iteration, acceptance G(umax) (>= 0.75 at umax = 2)
        P.draw = draw_rejection(6 / Gmax);
        run_point(C, P, [=] { return Scalar<TsaiUrbanDistribution>(MevEnergy{energy}, MevMass{mass}); });
    };
    double const me = 0.5109989461;
    run("E<<m", 1e-6, me);
    run("E~0.1m", 0.05, me);
    run("E~m", 0.5, me);
    run("E~10m", 5.0, me);
    run("E~1e3m", 500.0, me);
    run("E~1e4m", 5000.0, me);
    run("E~1e7m", 5e6, me);  // support / draws only
    run("muon-mass", 50.0, 105.6583745);
    for (int i = 0; i < 3; ++i)
        run("random", g.loguniform(1e-3, 1e3), me);
}

//---------------------------------------------------------------------------//
// EnergyLossGaussianDistribution(mean, stddev): normal truncated to (0, 2 mean]
inline Marginal truncnormal_marginal(double mean, double sd)
{
    Marginal m;
    m.sup.lo = 0;
    m.sup.lo_open = true;
    m.sup.hi = 2 * mean;
    double a = mean / sd;
    double Z = 1 - 2 * dstat::norm_sf(a);  // P(-a < Z <= a)
    m.cdf = [mean, sd, a, Z](double x) {
        if (x <= 0)
            return 0.0;
        if (x >= 2 * mean)
            return 1.0;
        return dstat::norm_between(-a, (x - mean) / sd) / Z;
    };
    // symmetric truncation: mean preserved; variance sd^2 (1 - 2 a phi(a)/Z);
    // mu4 = sd^4 (3 - 2 (a^3 + 3a) phi(a) / Z)
    double phi = std::exp(-0.5 * a * a) / std::sqrt(2 * 3.141592653589793);
    m.have_mom = true;
    m.m1 = mean;
    m.mu2 = sd * sd * (1 - 2 * a * phi / Z);
    m.mu3 = 0;
    m.mu4 = sd * sd * sd * sd * (3 - 2 * (a * a * a + 3 * a) * phi / Z);
    return m;
}
inline DrawModel truncnormal_draws(double mean, double sd)
{
    double acc = 1 - 2 * dstat::norm_sf(mean / sd);
    // each normal costs 2 words on average but arrives in units of 4
    return draw_rejection(4 + 2 / acc);
}

template<class D>
struct EnergySampler
{
    D d;
    template<class... A>
    explicit EnergySampler(A... a) : d(a...)
    {
    }
    void operator()(DistEngine& e, double* o) { o[0] = d(e).value(); }
};

inline void points_eloss_direct(Ctx& C, verif::Rng& g)
{
    auto gauss = [&](std::string regime, double mean, double sd) {
        PointSpec P;
        P.dist = "EnergyLossGaussianDistribution";
        P.branch = "truncated-normal";
        P.regime = regime;
        P.params = {{"mean_loss", mean}, {"bohr_stddev", sd}};
        P.marg = {truncnormal_marginal(mean, sd)};
        P.draw = truncnormal_draws(mean, sd);
        P.scripts = {{0.0, 0.0}, {0.25, u_tiny}, {0.75, u_tiny}, {0.25, 0.0}, {0.5, 0.0}};
        run_point(C, P, [=] {
            return EnergySampler<EnergyLossGaussianDistribution>(MevEnergy{mean}, MevEnergy{sd});
        });
    };
    gauss("mean=sd/4", 0.25, 1.0);  // limit used by the Urban fast sampling
    gauss("mean=sd", 1e-3, 1e-3);
    gauss("mean=2sd", 0.1, 0.05);  // limit used by EnergyLossHelper
    gauss("mean=10sd", 2.0, 0.2);
    gauss("mean=1e3sd", 1.0, 1e-3);
    for (int i = 0; i < 3; ++i)
    {
        double mean = g.loguniform(1e-4, 10);
        gauss("random", mean, mean / g.loguniform(0.25, 30));
    }
    {
        // (mean, variance) constructor
        double mean = 0.3, var = 0.01;
        PointSpec P;
        P.dist = "EnergyLossGaussianDistribution";
        P.branch = "truncated-normal";
        P.regime = "variance-ctor";
        P.params = {{"mean_loss", mean}, {"bohr_var", var}};
        P.marg = {truncnormal_marginal(mean, std::sqrt(var))};
        P.draw = truncnormal_draws(mean, std::sqrt(var));
        run_point(C, P, [=] {
            return EnergySampler<EnergyLossGaussianDistribution>(MevEnergy{mean}, EnergySq{var});
        });
    }
    auto gam = [&](std::string regime, double mean, double var) {
        PointSpec P;
        P.dist = "EnergyLossGammaDistribution";
        double k = mean * mean / var;
        P.branch = k < 1 ? "k<1" : "k>=1";
        P.regime = regime;
        P.params = {{"mean_loss", mean}, {"bohr_var", var}, {"k", k}};
        P.marg = {gamma_marginal(k, mean / k)};
        P.draw = gamma_draws(k);
        run_point(C, P, [=] {
            return EnergySampler<EnergyLossGammaDistribution>(MevEnergy{mean}, EnergySq{var});
        });
    };
    gam("k=0.1", 0.1, 0.1);
    gam("k=0.9", 0.3, 0.1);
    gam("k=1", 0.2, 0.04);
    gam("k=1.1", 1.1, 1.1);
    gam("k=3.9", 3.9e-3, 3.9e-6);  // helper uses gamma for k < 4
    for (int i = 0; i < 3; ++i)
    {
        double mean = g.loguniform(1e-4, 10), k = g.uniform(0.05, 4.0);
        gam("random", mean, mean * mean / k);
    }
}

//---------------------------------------------------------------------------//
// Shared params for EnergyLossHelper-driven sampling
struct ElossWorld
{
    std::shared_ptr<MaterialParams> materials;
    std::shared_ptr<ParticleParams> particles;
    std::shared_ptr<CutoffParams> cutoffs;
    std::shared_ptr<FluctuationParams> fluct;
    CollectionStateStore<ParticleStateData, MemSpace::host> pstate;
    CollectionStateStore<MaterialStateData, MemSpace::host> mstate;
    std::vector<double> cut;  // electron production cut per material [MeV]
    std::vector<std::string> matname;
    std::vector<std::string> parname;
    std::vector<double> mass;
    std::vector<double> charge;  // [e]
    std::vector<double> electron_density;  // per material [1/len^3], from the inputs below

    ElossWorld()
    {
        using namespace constants;
        using namespace units;
        MaterialParams::Input mi;
        mi.elements = {{AtomicNumber{18}, AmuMass{39.948}, {}, "Ar"},
                       {AtomicNumber{1}, AmuMass{1.008}, {}, "H"},
                       {AtomicNumber{82}, AmuMass{207.2}, {}, "Pb"},
                       {AtomicNumber{8}, AmuMass{15.999}, {}, "O"}};
        auto mat = [&](double molcc, MatterState st,
                       std::vector<std::pair<ElementId, real_type>> el, char const* name,
                       double cutoff) {
            mi.materials.push_back(
                {native_value_from(MolCcDensity{molcc}), 293.0, st, std::move(el), name});
            cut.push_back(cutoff);
            matname.push_back(name);
            // electrons per volume = number density x sum_i(fraction_i Z_i), fractions normalised
            static int const zel[] = {18, 1, 82, 8};
            double fsum = 0, zsum = 0;
            for (auto const& ef : mi.materials.back().elements_fractions)
            {
                fsum += ef.second;
                zsum += ef.second * zel[ef.first.get()];
            }
            electron_density.push_back(double(mi.materials.back().number_density) * zsum / fsum);
        };
        mat(1.0, MatterState::solid, {{ElementId{0}, 1.0}}, "Ar-cut1keV", 1e-3);
        mat(1.0, MatterState::solid, {{ElementId{0}, 1.0}}, "Ar-cut1MeV", 1.0);
        mat(1.0, MatterState::solid, {{ElementId{0}, 1.0}}, "Ar-cut5eV", 5e-6);
        mat(0.05, MatterState::gas, {{ElementId{1}, 1.0}}, "H2-cut10keV", 1e-2);
        mat(0.0547, MatterState::solid, {{ElementId{2}, 1.0}}, "Pb-cut100keV", 0.1);
        mat(0.1665, MatterState::liquid, {{ElementId{1}, 2.0 / 3}, {ElementId{3}, 1.0 / 3}},
            "H2O-cut350keV", 0.35);
        materials = std::make_shared<MaterialParams>(std::move(mi));

        ParticleParams::Input pi{
            {"electron", pdg::electron(), MevMass{0.5109989461}, ElementaryCharge{-1},
             stable_decay_constant},
            {"positron", pdg::positron(), MevMass{0.5109989461}, ElementaryCharge{1},
             stable_decay_constant},
            {"mu_minus", pdg::mu_minus(), MevMass{105.6583745}, ElementaryCharge{-1},
             stable_decay_constant},
            {"proton", pdg::proton(), MevMass{938.27208816}, ElementaryCharge{1},
             stable_decay_constant},
            {"alpha", pdg::alpha(), MevMass{3727.3794066}, ElementaryCharge{2},
             stable_decay_constant},
            {"anti_alpha", pdg::anti_alpha(), MevMass{3727.3794066}, ElementaryCharge{-2},
             stable_decay_constant}};
        parname = {"electron", "positron", "mu_minus", "proton", "alpha", "anti_alpha"};
        mass = {0.5109989461, 0.5109989461, 105.6583745, 938.27208816, 3727.3794066, 3727.3794066};
        charge = {-1, 1, -1, 1, 2, -2};
        particles = std::make_shared<ParticleParams>(std::move(pi));

        CutoffParams::Input ci;
        ci.particles = particles;
        ci.materials = materials;
        CutoffParams::MaterialCutoffs mc;
        for (double c : cut)
            mc.push_back({MevEnergy{c}, 0});
        ci.cutoffs.insert({pdg::electron(), mc});
        cutoffs = std::make_shared<CutoffParams>(ci);

        pstate = CollectionStateStore<ParticleStateData, MemSpace::host>(particles->host_ref(), 1);
        mstate = CollectionStateStore<MaterialStateData, MemSpace::host>(materials->host_ref(), 1);
        fluct = std::make_shared<FluctuationParams>(*particles, *materials);
    }
};

using ELModel = EnergyLossFluctuationModel;
inline char const* model_name(ELModel m)
{
    switch (m)
    {
        case ELModel::none: return "none";
        case ELModel::gamma: return "gamma";
        case ELModel::gaussian: return "gaussian";
        case ELModel::urban: return "urban";
    }
    return "?";
}

// Model predicted from the documented criteria (EnergyLossHelper / EnergyLossGaussian /
// EnergyLossGamma doc comments, Geant4 PRM eq. 7.6-7.7), written independently of the code:
//   none     : mean loss < E_0 = 10 eV, or T = min(T_cut, T_max) <= E_0
//   urban    : incident electron/positron (not "heavy"), or mean < kappa T (kappa = 10), or
//              T_max > 2 T_cut
//   gaussian : otherwise, when mean >= 2 Bohr standard deviations;  gamma: mean < 2 sigma
// `margin` = smallest relative distance to a threshold (prediction not judged below 1e-9)
struct Predicted
{
    ELModel model;
    double margin;
    double tmax, tcut_eff;
};
inline Predicted predict_model(double E, double M, double me, double tcut, double mean_loss,
                               double bohr_var, bool is_electron)
{
    Predicted p;
    p.margin = inf;
    auto cmp = [&](double a, double b) {  // returns a < b, tracking the margin
        p.margin = std::min(p.margin, std::fabs(a - b) / std::max(std::fabs(a), std::fabs(b)));
        return a < b;
    };
    double const e0 = 1e-5;
    double gamma = 1 + E / M;
    double bg2 = (E / M) * (E / M + 2);  // beta^2 gamma^2
    double r = me / M;
    double tmax = is_electron ? 0.5 * E : 2 * me * bg2 / (1 + 2 * gamma * r + r * r);
    double T = std::min(tcut, tmax);
    p.tmax = tmax;
    p.tcut_eff = T;
    if (cmp(mean_loss, e0))
    {
        p.model = ELModel::none;
        return p;
    }
    if (!cmp(e0, T))
    {
        p.model = ELModel::none;
        return p;
    }
    bool light = r >= 1;
    bool few = cmp(mean_loss, 10 * T);
    bool hard = cmp(2 * T, tmax);
    if (light || few || hard)
    {
        p.model = ELModel::urban;
        return p;
    }
    p.model = cmp(mean_loss * mean_loss, 4 * bohr_var) ? ELModel::gamma : ELModel::gaussian;
    return p;
}

struct HelperCase
{
    int par, mat;
    double E, mean_loss, step;
};

// A sampler that rebuilds views + helper and samples with the model-specific distribution
struct HelperSampler
{
    ElossWorld* W;
    HelperCase c;
    ParticleTrackView particle;
    MaterialTrackView material;
    CutoffView cutoff;
    EnergyLossHelper helper;
    std::unique_ptr<EnergyLossGammaDistribution> gam;
    std::unique_ptr<EnergyLossGaussianDistribution> gau;
    std::unique_ptr<EnergyLossUrbanDistribution> urb;
    std::unique_ptr<EnergyLossDeltaDistribution> del;

    static ParticleTrackView make_particle(ElossWorld* W, HelperCase const& c)
    {
        ParticleTrackView p(W->particles->host_ref(), W->pstate.ref(), TrackSlotId{0});
        p = {ParticleId{size_type(c.par)}, MevEnergy{c.E}};
        return p;
    }
    static MaterialTrackView make_material(ElossWorld* W, HelperCase const& c)
    {
        MaterialTrackView m(W->materials->host_ref(), W->mstate.ref(), TrackSlotId{0});
        m = {MaterialId{size_type(c.mat)}};
        return m;
    }
    HelperSampler(ElossWorld* w, HelperCase const& cc)
        : W(w)
        , c(cc)
        , particle(make_particle(w, cc))
        , material(make_material(w, cc))
        , cutoff(w->cutoffs->host_ref(), MaterialId{size_type(cc.mat)})
        , helper(w->fluct->host_ref(), cutoff, material, particle, MevEnergy{cc.mean_loss}, cc.step)
    {
        switch (helper.model())
        {
            case ELModel::none: del = std::make_unique<EnergyLossDeltaDistribution>(helper); break;
            case ELModel::gamma: gam = std::make_unique<EnergyLossGammaDistribution>(helper); break;
            case ELModel::gaussian:
                gau = std::make_unique<EnergyLossGaussianDistribution>(helper);
                break;
            case ELModel::urban: urb = std::make_unique<EnergyLossUrbanDistribution>(helper); break;
        }
    }
    HelperSampler(HelperSampler const&) = delete;
    void operator()(DistEngine& e, double* o)
    {
        if (urb)
            o[0] = (*urb)(e).value();
        else if (gau)
            o[0] = (*gau)(e).value();
        else if (gam)
            o[0] = (*gam)(e).value();
        else
            o[0] = (*del)(e).value();
    }
};

inline void run_helper_case(Ctx& C, ElossWorld& W, std::string regime, HelperCase c)
{
    // probe the helper once (outside run_point) for model, variance
    ELModel model;
    double var = 0, mean = c.mean_loss;
    try
    {
        HelperSampler probe(&W, c);
        model = probe.helper.model();
        if (model == ELModel::gamma || model == ELModel::gaussian)
            var = probe.helper.bohr_variance().value();
        else if (model == ELModel::urban)
            var = probe.helper.bohr_variance().value();
    }
    catch (DebugError const& e)
    {
        C.rep.inconclusive("debug-assert: " + verif::describe(e));
        C.rep.observe("assert:" + verif::describe(e));
        return;
    }
    if (var > 0)
    {
        // Bohr's variance of the restricted loss (Geant4 PRM section 7.3.1, GEANT3 PHYS332, the
        // references of the class documentation), computed from the case's own inputs:
        //   sigma^2 = 2 pi r_e^2 m_e c^2 n_el (z^2 / beta^2) T s (1 - beta^2 / 2)
        double const M = W.mass[std::size_t(c.par)], me = W.mass[0];
        double const gam = 1 + c.E / M;
        double const bsq = 1 - 1 / (gam * gam);
        Predicted p0 = predict_model(c.E, M, me, W.cut[std::size_t(c.mat)], 1.0, 1.0, c.par == 0);
        double const z = W.charge[std::size_t(c.par)];
        double const expect = 2 * constants::pi * constants::r_electron * constants::r_electron * me
                              * W.electron_density[std::size_t(c.mat)] * z * z / bsq * p0.tcut_eff
                              * c.step * (1 - 0.5 * bsq);
        json vp = {{"particle", W.parname[std::size_t(c.par)]}, {"charge", z},
                   {"material", W.matname[std::size_t(c.mat)]}, {"energy_MeV", c.E},
                   {"step_cm", c.step}, {"bohr_var_helper", var}, {"bohr_var_documented", expect}};
        // beta^2 = 1 - 1/gamma^2 loses relative accuracy ~ eps / beta^2 for slow particles
        double const tol = 1e-9 + 8 * 2.3e-16 / bsq;
        if (!(std::fabs(var - expect) <= tol * expect))
            C.rep.violation("C15/parameter/EnergyLossHelper/bohr-variance",
                            "Bohr variance handed to the gamma/Gaussian/Urban samplers differs from "
                            "the documented formula",
                            vp);
        else
            C.rep.held(std::string("EnergyLossHelper/bohr-variance/z=") + std::to_string(int(z)));
    }
    bool is_el = c.par == 0;
    Predicted pr = predict_model(c.E, W.mass[std::size_t(c.par)], W.mass[0],
                                 W.cut[std::size_t(c.mat)], c.mean_loss, var, is_el);
    json params = {{"particle", W.parname[std::size_t(c.par)]},
                   {"material", W.matname[std::size_t(c.mat)]},
                   {"energy_MeV", c.E}, {"mean_loss_MeV", c.mean_loss}, {"step_cm", c.step},
                   {"model", model_name(model)}, {"predicted", model_name(pr.model)},
                   {"threshold_margin", pr.margin}, {"bohr_var", var}};
    if (pr.margin < 1e-9)
        C.rep.inconclusive("untestable: parameter within 1e-9 of a model-switch threshold");
    else if (pr.model != model)
        C.rep.violation("C15/model-switch/EnergyLossHelper",
                        "fluctuation model chosen differs from the documented criteria", params);
    else
        C.rep.held(std::string("EnergyLossHelper/select-") + model_name(model));

    PointSpec P;
    P.dist = std::string("EnergyLossHelper+") + model_name(model);
    P.branch = model_name(model);
    P.regime = regime;
    P.params = params;
    switch (model)
    {
        case ELModel::none: {
            Marginal m;
            m.sup.lo = mean;
            m.sup.hi = mean;
            m.stat = false;
            P.marg = {m};
            P.draw = draw_exact(0);
            P.key_site = "EnergyLossDeltaDistribution/delta";
            break;
        }
        case ELModel::gaussian:
            P.key_site = "EnergyLossGaussianDistribution/truncated-normal";
            P.marg = {truncnormal_marginal(mean, std::sqrt(var))};
            P.draw = truncnormal_draws(mean, std::sqrt(var));
            break;
        case ELModel::gamma: {
            double k = mean * mean / var;
            P.key_site = std::string("EnergyLossGammaDistribution/") + (k < 1 ? "k<1" : "k>=1");
            P.marg = {gamma_marginal(k, mean / k)};
            P.draw = gamma_draws(k);
            break;
        }
        case ELModel::urban: {
            Marginal m;
            // energy loss >= 0 (CELER_ENSURE in the sampler); mean preserved by construction of
            // the model (PRM 7.3.2: cross sections chosen such that the mean loss is the input)
            P.key_site = "EnergyLossUrbanDistribution/urban";
            m.sup.lo = 0;
            m.mean_only = true;
            m.m1 = mean;
            P.marg = {m};
            // two Poisson(<= 8) direct samplers (<= 9 canonicals on average each) + per-collision
            // uniforms (<= 8 on average) + up to three truncated Gaussians with acceptance
            // >= 0.197 (sd <= 4 mean): expected < 120 words; bound 50x.
            P.draw = draw_rejection(120);
            P.thorough_n = 1000000;
            break;
        }
    }
    run_point(C, P, [&W, c] { return HelperSampler(&W, c); });
}

inline void points_eloss_helper(Ctx& C, ElossWorld& W, verif::Rng& g)
{
    enum
    {
        el = 0,
        pos = 1,
        mu = 2,
        pr = 3
    };
    enum
    {
        Ar1keV = 0,
        Ar1MeV = 1,
        Ar5eV = 2,
        H2 = 3,
        Pb = 4,
        H2O = 5
    };
    double const cm = units::centimeter;
    // none
    run_helper_case(C, W, "none/mean<E0", {el, Ar1keV, 1e-2, 2e-6, 1e-6 * cm});
    run_helper_case(C, W, "none/cut<=E0", {mu, Ar5eV, 10.0, 1e-3, 1e-2 * cm});
    run_helper_case(C, W, "none/Tmax<=E0", {el, Ar1keV, 1.5e-5, 1.2e-5, 1e-5 * cm});
    // urban: electrons / positrons
    run_helper_case(C, W, "urban/electron-thick", {el, Ar1keV, 10.0, 1e-2, 0.1 * cm});
    run_helper_case(C, W, "urban/electron-thin", {el, Ar1keV, 1.0, 5e-5, 1e-3 * cm});
    run_helper_case(C, W, "urban/electron-Tmax<I", {el, Ar1keV, 3e-4, 1e-4, 1e-4 * cm});
    run_helper_case(C, W, "urban/positron", {pos, H2O, 5.0, 2e-2, 0.1 * cm});
    run_helper_case(C, W, "urban/electron-Pb", {el, Pb, 20.0, 0.5, 0.05 * cm});
    run_helper_case(C, W, "urban/electron-H2", {el, H2, 2.0, 1e-3, 1.0 * cm});
    // urban: heavy
    run_helper_case(C, W, "urban/muon-few-collisions", {mu, Ar1keV, 1e3, 5e-3, 1e-2 * cm});
    run_helper_case(C, W, "urban/muon-Tmax>2Tcut", {mu, Ar1keV, 1e3, 0.5, 1.0 * cm});
    run_helper_case(C, W, "urban/proton-slow-w<w0", {pr, Ar1MeV, 1e-2, 3e-5, 1e-5 * cm});
    run_helper_case(C, W, "urban/muon-w<logE2", {mu, Ar1MeV, 0.1, 2e-4, 1e-4 * cm});
    // gaussian / gamma via the test-suite configuration (mu- 10 keV in Ar: Tmax < Tcut)
    run_helper_case(C, W, "gaussian/muon", {mu, Ar1keV, 1e-2, 0.1, 5e-4 * cm});
    run_helper_case(C, W, "gamma/muon", {mu, Ar1keV, 1e-2, 0.1, 5e-2 * cm});
    run_helper_case(C, W, "gaussian/proton", {pr, Ar1MeV, 2.0, 0.5, 1e-3 * cm});
    run_helper_case(C, W, "gamma/proton", {pr, Ar1MeV, 2.0, 0.5, 1.0 * cm});
    // doubly charged projectiles (Tmax of a 5 MeV alpha ~ 2.7 keV < Tcut)
    run_helper_case(C, W, "gaussian/alpha", {4, Ar1MeV, 5.0, 0.5, 1e-3 * cm});
    run_helper_case(C, W, "gamma/alpha", {4, Ar1MeV, 5.0, 0.5, 1.0 * cm});
    run_helper_case(C, W, "gaussian/anti-alpha", {5, H2O, 8.0, 1.0, 2e-3 * cm});
    run_helper_case(C, W, "urban/alpha-fast", {4, Ar1keV, 4e3, 0.05, 1e-2 * cm});
    // straddle thresholds: mean = 10 T (1 +- d), mean^2 = 4 var (1 +- d)
    for (int side = -1; side <= 1; side += 2)
    {
        double d = 1 + side * 1e-6;
        std::string sfx = side < 0 ? "-below" : "-above";
        // mu- 10 keV: Tmax = 2 me bg2/(...) ~ 1.9e-4 < Tcut = 1e-3
        {
            double E = 1e-2, M = W.mass[mu], me = W.mass[0];
            Predicted p0 = predict_model(E, M, me, W.cut[Ar1keV], 1.0, 1.0, false);
            run_helper_case(C, W, "straddle/kappa" + sfx,
                            {mu, Ar1keV, E, 10 * p0.tcut_eff * d, 1e-6 * cm});
        }
        // gaussian/gamma boundary: var is proportional to the step
        {
            HelperCase c{mu, Ar1keV, 1e-2, 0.1, 1e-3 * cm};
            double var = 0;
            {
                HelperSampler probe(&W, c);
                if (probe.helper.model() == ELModel::gaussian
                    || probe.helper.model() == ELModel::gamma)
                    var = probe.helper.bohr_variance().value();
            }
            if (var > 0)
            {
                c.step *= c.mean_loss * c.mean_loss / (4 * var) * d;
                run_helper_case(C, W, "straddle/2sigma" + sfx, c);
            }
        }
        // Tmax = 2 Tcut (1 +- d): proton energy solved by bisection on the documented Tmax
        {
            double M = W.mass[pr], me = W.mass[0], tc = W.cut[Ar1keV];
            double lo = 1e-3, hi = 1e3;
            for (int it = 0; it < 200; ++it)
            {
                double mid = std::sqrt(lo * hi);
                Predicted p = predict_model(mid, M, me, tc, 1.0, 1.0, false);
                (p.tmax < 2 * tc * d ? lo : hi) = mid;
            }
            run_helper_case(C, W, "straddle/Tmax=2Tcut" + sfx, {pr, Ar1keV, lo, 0.05, 1e-3 * cm});
        }
        // mean = E0 (1 +- d)
        run_helper_case(C, W, "straddle/mean=E0" + sfx, {el, Ar1keV, 1.0, 1e-5 * d, 1e-5 * cm});
    }
    // random configurations
    int nrand = C.args.thorough() ? 24 : 12;
    for (int i = 0; i < nrand; ++i)
    {
        HelperCase c;
        c.par = int(g.integer(0, 5));
        c.mat = int(g.integer(0, 5));
        c.E = g.loguniform(1e-3, 1e4);
        c.mean_loss = g.loguniform(2e-6, std::min(c.E, 10.0));
        c.step = g.loguniform(1e-5, 10.0) * cm;
        run_helper_case(C, W, std::string("random/") + W.parname[std::size_t(c.par)], c);
    }
}

}  // namespace distv
