// Per-parameter-point procedure of the `dist` engine (C15).
#pragma once

#include "dist_harness.hh"

namespace distv
{
inline json jarr_d(double const* x, std::size_t n);

struct Ctx
{
    verif::Args const& args;
    verif::Report& rep;
    bool asan = false;
    std::string only;
    u64 point_index = 0;
    u64 quick_n = 100000;
};

inline std::string site(PointSpec const& P)
{
    return P.key_site.empty() ? P.dist + "/" + P.branch : P.key_site;
}
inline std::string cell(PointSpec const& P)
{
    return P.dist + "/" + P.regime;
}

struct PassOut
{
    u64 ok = 0, edge = 0, bad = 0;
    bool aborted = false;
    std::vector<Accum> acc;
};

struct Flagged
{
    std::set<std::string> keys;
};

// record one violation per (point,key); further occurrences only counted
inline void flag(Ctx& C, Flagged& F, std::string const& key, std::string const& detail, json w)
{
    if (F.keys.insert(key).second)
        C.rep.violation_in_case(key, detail, std::move(w));
    else
        C.rep.observe("more:" + key);
}

inline json jhex(double const* x, std::size_t n)
{
    json a = json::array();
    for (std::size_t i = 0; i < n; ++i)
        a.push_back(verif::hexd(x[i]));
    return a;
}

// One stream of samples through a fresh sampler.  mode: 0 plain random (statistics
// accumulated), 1 hostile (p_extreme > 0), 2 scripted prefix (one sample per call)
template<class Make>
PassOut run_pass(Ctx& C, PointSpec const& P, Make& make, u64 pidx, int mode, u64 N, u64 seed,
                 double p_extreme, std::vector<double> const* script, bool want_stats,
                 Flagged& F)
{
    PassOut out;
    std::size_t const nm = P.marg.size();
    if (want_stats)
    {
        out.acc.resize(nm);
        for (std::size_t j = 0; j < nm; ++j)
        {
            auto& a = out.acc[j];
            if (P.marg[j].stat)
                a.h = build_hist(P.marg[j], N);
            a.cnt.assign(std::size_t(std::max(1, a.h.nb)), 0);
            if (P.marg[j].discrete && a.h.problem.empty() && !a.h.pm.empty())
                a.shift = a.h.m1;
            else if (P.marg[j].have_mom || P.marg[j].mean_only)
                a.shift = P.marg[j].m1;
        }
    }
    DistEngine eng(seed, p_extreme);
    if (script)
        eng.script(*script);
    auto s = make();
    double x[4] = {0, 0, 0, 0};
    auto witness = [&](u64 i, u64 words) {
        json w = {{"dist", P.dist}, {"regime", P.regime}, {"params", P.params},
                  {"engine_seed", C.args.seed}, {"point_index", pidx}, {"stream_seed", seed},
                  {"stream", mode == 0 ? "random" : mode == 1 ? "hostile" : "scripted"},
                  {"p_extreme", p_extreme}, {"sample_index", i}, {"words_drawn", words},
                  {"sample", jarr_d(x, nm)}, {"sample_hex", jhex(x, nm)}};
        if (script)
            w["scripted_canonicals_hex"] = jhex(script->data(), script->size());
        return w;
    };
    for (u64 i = 0; i < N; ++i)
    {
        eng.begin_sample();
        try
        {
            s(eng, x);
        }
        catch (verif::DrawLimitExceeded const&)
        {
            flag(C, F, "C15/unbounded-sampling/" + site(P),
                 "sampler drew more than 1e6 words for one sample", witness(i, eng.count()));
            out.aborted = true;
            ++out.bad;
            break;
        }
        u64 const words = eng.count();
        bool good = true, edge = false, drawbad = false;
        if (!draw_ok(P.draw, words, x[0], i, mode == 0))
        {
            json w = witness(i, words);
            w["draw_model"] = jdraw(P.draw);
            flag(C, F, "C15/draw-count/" + site(P),
                 "number of 32-bit words drawn for one sample violates the draw model", w);
            drawbad = true;  // the value itself still belongs to the empirical distribution
        }
        for (std::size_t j = 0; j < nm; ++j)
        {
            Cls c = classify(P.marg[j].sup, x[j]);
            if (c == Cls::inside)
                continue;
            if (c == Cls::edge)
            {
                edge = true;
                continue;
            }
            json w = witness(i, words);
            w["observable"] = P.marg[j].label;
            w["support"] = jsupport(P.marg[j].sup);
            flag(C, F,
                 std::string(c == Cls::nonfinite ? "C15/support-nonfinite/" : "C15/support/")
                     + site(P),
                 c == Cls::nonfinite ? "sample is not finite" : "sample outside the documented support",
                 w);
            good = false;
        }
        if (good && P.extra)
        {
            if (char const* what = P.extra(x))
            {
                flag(C, F, std::string("C15/") + what + "/" + site(P), what, witness(i, words));
                good = false;
            }
        }
        if (!good)
        {
            ++out.bad;
            continue;
        }
        // samples on an excluded end point are roundings of in-support values: not judged for
        // support, but they belong to the empirical distribution
        if (want_stats)
        {
            bool imp = false;
            for (std::size_t j = 0; j < nm; ++j)
                if (out.acc[j].h.impossible(x[j]))
                {
                    json w = witness(i, words);
                    w["observable"] = P.marg[j].label;
                    w["plausible_window"] = {out.acc[j].h.plaus_lo, out.acc[j].h.plaus_hi};
                    flag(C, F, "C15/tail-impossible/" + site(P),
                         "sample has probability < 1e-30 (or exactly 0) under the documented "
                         "target distribution",
                         w);
                    imp = true;
                }
            if (imp)
            {
                ++out.bad;
                continue;
            }
            for (std::size_t j = 0; j < nm; ++j)
                out.acc[j].add(x[j]);
        }
        if (drawbad)
        {
            ++out.bad;
            continue;
        }
        if (edge)
        {
            ++out.edge;
            continue;
        }
        ++out.ok;
    }
    return out;
}

template<class Make>
void run_point(Ctx& C, PointSpec const& P, Make make)
{
    u64 const pidx = C.point_index++;
    if (!C.only.empty() && cell(P).find(C.only) == std::string::npos)
        return;
    auto& rep = C.rep;
    std::string const cl = cell(P);
    Flagged F;
    u64 ok = 0, edge = 0;
    auto seed_of = [&](u64 pass) { return verif::mix_seed(C.args.seed, pidx * 64 + pass); };
    try
    {
        u64 N = u64(double(C.args.budget(C.quick_n, P.thorough_n)) * P.nmult);
        N = std::max<u64>(N, 200);
        //---- plain random pass with statistics
        PassOut r = run_pass(C, P, make, pidx, 0, N, seed_of(0), 0.0, nullptr, true, F);
        ok += r.ok;
        edge += r.edge;
        rep.observe("samples_random", r.ok);
        for (std::size_t j = 0; j < P.marg.size() && !r.aborted; ++j)
        {
            Marginal const& m = P.marg[j];
            if (!m.stat)
                continue;
            if (!r.acc[j].h.problem.empty())
            {
                rep.inconclusive("harness: " + r.acc[j].h.problem);
                continue;
            }
            if (F.keys.count("C15/tail-impossible/" + site(P)))
            {
                // the impossible samples were removed from the histogram: the remaining
                // deficit is the same defect, already reported under its own key
                rep.inconclusive("distribution not judged: impossible samples at this point "
                                 "(reported as tail-impossible)");
                continue;
            }
            auto tests = evaluate(m, r.acc[j]);
            std::vector<std::string> suspicious;
            for (auto const& t : tests)
            {
                if (!t.done)
                {
                    rep.inconclusive("untestable: " + t.name + " z-test outside CLT guard");
                    continue;
                }
                rep.observe("test:" + t.name);
                rep.observe_max("min_-log10p:" + t.name, -std::log10(std::max(t.p, 1e-300)));
                if (t.p < 1e-6)
                    suspicious.push_back(t.name);
                else
                    rep.held(cl);
            }
            if (suspicious.empty())
                continue;
            //---- statistical discipline: independent re-run at 16 N with a fresh seed
            rep.observe("stat_rerun");
            PassOut r2 = run_pass(C, P, make, pidx, 0, 16 * N, seed_of(7 + j), 0.0, nullptr, true, F);
            auto tests2 = evaluate(m, r2.acc[j]);
            for (auto const& name : suspicious)
            {
                TestResult const* t1 = nullptr;
                TestResult const* t2 = nullptr;
                for (auto const& t : tests)
                    if (t.name == name)
                        t1 = &t;
                for (auto const& t : tests2)
                    if (t.name == name && t.done)
                        t2 = &t;
                if (t2 && t2->p < 1e-9)
                {
                    json w = {{"dist", P.dist}, {"regime", P.regime}, {"params", P.params},
                              {"observable", m.label}, {"engine_seed", C.args.seed},
                              {"point_index", pidx}, {"N1", r.acc[j].n}, {"p1", t1->p},
                              {"first", t1->detail}, {"N2", r2.acc[j].n}, {"p2", t2->p},
                              {"rerun", t2->detail}};
                    std::string key = "C15/" + name + "/" + site(P)
                                      + (m.label.empty() ? "" : "/" + m.label);
                    F.keys.insert(key);
                    rep.violation(key,
                                  name + " statistic beyond p<1e-6 at N and p<1e-9 in an "
                                         "independent re-run at 16N",
                                  w);
                }
                else
                {
                    rep.observe("stat_rerun_cleared");
                    rep.held(cl);
                }
            }
        }
        //---- hostile passes: support + deterministic draw relations + watchdog only
        u64 Nh = std::max<u64>(500, N / 4);
        int hp = 1;
        for (double pe : {0.02, 0.25})
        {
            // a library debug assertion (asan variant) aborts this stream only
            try
            {
                PassOut h = run_pass(C, P, make, pidx, 1, Nh, seed_of(u64(hp++)), pe, nullptr,
                                     false, F);
                ok += h.ok;
                edge += h.edge;
                rep.observe("samples_hostile", h.ok);
            }
            catch (celeritas::DebugError const& e)
            {
                if (verif::is_bounds_assertion(e))
                    throw;
                rep.inconclusive("debug-assert: " + verif::describe(e));
                rep.observe("assert:" + verif::describe(e));
            }
        }
        //---- scripted canonical prefixes: each extreme value at each of the first draws
        {
            verif::Rng g(seed_of(5));
            std::vector<double> const V
                = {0.0, u_tiny, 0.25, 0.5, 0.75, 1.0 - 2 * u_tiny, u_max};
            auto rnd = [&] { return double(g.u64() >> 11) / two53; };
            std::vector<std::vector<double>> scripts = P.scripts;
            for (int pos = 0; pos < 6; ++pos)
                for (double v : V)
                    for (int rpt = 0; rpt < 2; ++rpt)
                    {
                        std::vector<double> sc;
                        for (int k = 0; k < pos; ++k)
                            sc.push_back(rnd());
                        sc.push_back(v);
                        scripts.push_back(sc);
                    }
            for (int len : {2, 3, 4, 8, 64})
                for (double v : V)
                    scripts.push_back(std::vector<double>(std::size_t(len), v));
            // all pairs of extremes in the first two draws
            for (double a : V)
                for (double b : V)
                    scripts.push_back({a, b});
            u64 k = 0;
            for (auto const& sc : scripts)
            {
                try
                {
                    PassOut h = run_pass(C, P, make, pidx, 2, 1, verif::mix_seed(seed_of(6), k++),
                                         0.0, &sc, false, F);
                    ok += h.ok;
                    edge += h.edge;
                }
                catch (celeritas::DebugError const& e)
                {
                    if (verif::is_bounds_assertion(e))
                        throw;
                    rep.inconclusive("debug-assert: " + verif::describe(e));
                    rep.observe("assert:" + verif::describe(e));
                }
            }
            rep.observe("samples_scripted", scripts.size());
        }
    }
    catch (celeritas::DebugError const& e)
    {
        if (verif::is_bounds_assertion(e))
            rep.violation(verif::bounds_key("C15", e), e.what(),
                          {{"dist", P.dist}, {"regime", P.regime}, {"params", P.params}});
        else
        {
            rep.inconclusive("debug-assert: " + verif::describe(e));
            rep.observe("assert:" + verif::describe(e));
        }
    }
    catch (celeritas::RuntimeError const& e)
    {
        rep.inconclusive("rejected input");
    }
    if (ok)
        rep.held(cl, ok);
    if (edge)
    {
        rep.inconclusive("untestable: sample equals an excluded end point / within rounding of "
                         "the support boundary",
                         edge);
        rep.observe("edge:" + cl, edge);
    }
    if (rep.want_sample(10) && (pidx % 17 == 0))
        rep.sample({{"dist", P.dist}, {"regime", P.regime}, {"params", P.params},
                    {"draw_model", jdraw(P.draw)}, {"samples_ok", ok}, {"edge", edge},
                    {"violations", std::vector<std::string>(F.keys.begin(), F.keys.end())}});
}

inline json jarr_d(double const* x, std::size_t n)
{
    json a = json::array();
    for (std::size_t i = 0; i < n; ++i)
    {
        if (std::isfinite(x[i]))
            a.push_back(x[i]);
        else
            a.push_back(std::isnan(x[i]) ? "nan" : (x[i] > 0 ? "inf" : "-inf"));
    }
    return a;
}

}  // namespace distv
