// Harness machinery of the `dist` engine (property C15): the scripted/hostile random engine,
// support classification, draw-count models, histogram construction from analytic CDF/PMF,
// and the per-parameter-point procedure (random pass + statistical verdict discipline,
// hostile passes, scripted extreme-canonical passes).
#pragma once

#include <algorithm>
#include <functional>
#include <string>
#include <vector>

#include "corecel/Assert.hh"
#include "celeritas/random/distribution/GenerateCanonical.hh"
#include "celeritas/random/detail/GenerateCanonical32.hh"

#include "dist_stats.hh"
#include "verif_celer.hh"
#include "verif_common.hh"

namespace distv
{
using verif::json;
using u64 = std::uint64_t;
using u32 = std::uint32_t;
constexpr double inf = dstat::inf;
constexpr double eps = 2.220446049250313e-16;  // 2^-52
constexpr double two53 = 9007199254740992.0;
constexpr double u_max = 1.0 - 1.0 / two53;  // largest canonical double
constexpr double u_tiny = 1.0 / two53;  // smallest non-zero canonical double

//---------------------------------------------------------------------------//
// 32-bit engine = (scripted canonical values, encoded as the two words GenerateCanonical32
// decodes) followed by a verif::HostileEngine stream.  Counts words, enforces the
// per-sample watchdog.
class DistEngine
{
  public:
    using result_type = unsigned int;
    static constexpr result_type min() { return 0u; }
    static constexpr result_type max() { return 0xffffffffu; }

    DistEngine(u64 seed, double p_extreme)
        : h_(seed, p_extreme, ~u64(0))
    {
    }
    result_type operator()()
    {
        if (++count_ > limit_)
            throw verif::DrawLimitExceeded();
        if (qpos_ < q_.size())
            return q_[qpos_++];
        return h_();
    }
    void begin_sample() { count_ = 0; }
    u64 count() const { return count_; }
    void set_limit(u64 l) { limit_ = l; }
    // Next canonical doubles returned will be exactly `canon` (each in [0,1), multiple of 2^-53)
    void script(std::vector<double> const& canon)
    {
        q_.clear();
        qpos_ = 0;
        for (double u : canon)
        {
            u64 m = u64(u * two53);  // exact: u is a multiple of 2^-53 below 1
            u32 upper = u32(m >> 21);
            u32 lower = u32(m & 0x1fffffu);  // (upper<<21) ^ lower == m
            q_.push_back(upper);
            q_.push_back(lower);
        }
    }

  private:
    verif::HostileEngine h_;
    std::vector<u32> q_;
    std::size_t qpos_ = 0;
    u64 count_ = 0;
    u64 limit_ = 1000000;  // absolute watchdog: words per sample
};
}  // namespace distv

namespace celeritas
{
// Same construction as for XorwowRngEngine (two 32-bit words -> 53-bit canonical double)
template<class RealType>
class GenerateCanonical<distv::DistEngine, RealType>
{
  public:
    using real_type = RealType;
    using result_type = RealType;
    CELER_FORCEINLINE_FUNCTION result_type operator()(distv::DistEngine& rng)
    {
        return detail::GenerateCanonical32<RealType>()(rng);
    }
};
}  // namespace celeritas

namespace distv
{
//---------------------------------------------------------------------------//
// Documented support of one observable.  Classification of a sample x:
//   inside    : within the documented interval (open/closed ends as documented)
//   edge      : equal to an excluded (open) end point, or within `slack_ulps` ulps beyond an
//               end: the exact real-arithmetic value of the documented formula lies inside
//               and the returned double is its rounding.  NOT judged (untestable by the
//               rounding allowance of DESIGN 2.6), only counted.
//   outside   : anything further out  -> violation
//   nonfinite : inf / NaN             -> violation (no documented support contains them)
struct Support
{
    double lo = -inf, hi = inf;
    bool lo_open = false, hi_open = false;
    int slack_ulps = 0;
};
enum class Cls
{
    inside,
    edge,
    outside,
    nonfinite
};
inline Cls classify(Support const& s, double x)
{
    if (!std::isfinite(x))
        return Cls::nonfinite;
    if (x < s.lo)
        return (s.slack_ulps > 0 && x >= verif::next_down(s.lo, s.slack_ulps)) ? Cls::edge
                                                                                : Cls::outside;
    if (x > s.hi)
        return (s.slack_ulps > 0 && x <= verif::next_up(s.hi, s.slack_ulps)) ? Cls::edge
                                                                              : Cls::outside;
    if ((x == s.lo && s.lo_open) || (x == s.hi && s.hi_open))
        return Cls::edge;
    return Cls::inside;
}
inline json jsupport(Support const& s)
{
    return {{"lo", s.lo}, {"hi", s.hi}, {"lo_open", s.lo_open}, {"hi_open", s.hi_open},
            {"slack_ulps", s.slack_ulps}};
}

//---------------------------------------------------------------------------//
struct Marginal
{
    std::string label;  // "" for scalar distributions
    Support sup;
    bool discrete = false;
    std::function<double(double)> cdf;  // continuous: P(X <= x)
    std::function<double(double)> pmf;  // discrete: P(X = k)
    double kmin = 0, kmax = -1, kmode = 0;  // discrete enumeration (kmax<0: unbounded above)
    // central moments of the target (continuous; discrete ones are computed from the pmf)
    bool have_mom = false;
    double m1 = 0, mu2 = 0, mu3 = 0, mu4 = 0;
    // only the mean is known analytically (variance/skewness estimated from the sample)
    bool mean_only = false;
    bool stat = true;  // run distribution tests on this observable
};

struct DrawModel
{
    enum Kind
    {
        none,  // only the absolute watchdog
        exact,  // inverse-CDF: constant number of words
        boxmuller,  // pairs: 4 words on even calls of one object, 0 on odd calls
        poisson_direct,  // Knuth: k+1 canonicals for result k
        bounded  // rejection: words <= c for every sample (plain random streams only)
    } kind
        = none;
    u64 c = 0;
    double expected = 0;  // expected words per sample (rejection), for the record
};
inline bool draw_ok(DrawModel const& d, u64 words, double x0, u64 i, bool plain_random)
{
    switch (d.kind)
    {
        case DrawModel::exact: return words == d.c;
        case DrawModel::boxmuller: return words == ((i & 1u) ? 0u : 4u);
        case DrawModel::poisson_direct: return words == 2 * (u64(x0) + 1);
        case DrawModel::bounded: return !plain_random || words <= d.c;
        default: return true;
    }
}
inline json jdraw(DrawModel const& d)
{
    static char const* const names[] = {"watchdog-only", "exact", "box-muller-pairs",
                                        "2*(k+1)", "bounded"};
    return {{"kind", names[int(d.kind)]}, {"words", d.c}, {"expected_words", d.expected}};
}
inline DrawModel draw_exact(u64 words)
{
    DrawModel d;
    d.kind = DrawModel::exact;
    d.c = words;
    d.expected = double(words);
    return d;
}
// rejection sampler: per-sample bound = 50 x expected words (DESIGN C15), at least 64.
// For a geometric number of iterations with acceptance a the chance to exceed 50/a
// iterations is (1-a)^(50/a) <= e^-50 ~ 2e-22 per sample.
inline DrawModel draw_rejection(double expected_words)
{
    DrawModel d;
    d.kind = DrawModel::bounded;
    d.expected = expected_words;
    d.c = std::max<u64>(64, u64(std::ceil(50 * expected_words)));
    return d;
}

struct PointSpec
{
    std::string dist;  // class / routine under test
    std::string branch;  // code branch (part of the violation key)
    std::string regime;  // parameter regime (coverage cell = dist/regime)
    std::string key_site;  // optional override of "dist/branch" in violation keys
    json params;
    std::vector<Marginal> marg;  // 1..3 observables written by the sampler
    DrawModel draw;
    double nmult = 1;  // sample-count multiplier
    u64 thorough_n = 4000000;
    // extra per-sample check (e.g. unit norm); returns nullptr or a monitor name
    std::function<char const*(double const*)> extra;
    std::vector<std::vector<double>> scripts;  // additional scripted canonical prefixes
};

//---------------------------------------------------------------------------//
struct Hist
{
    bool discrete = false;
    bool usable = false;
    std::vector<double> edges;  // continuous: interior edges
    std::vector<double> prob;
    long long kbase = 0;
    std::vector<int> binof;
    std::vector<double> pm;  // discrete pmf over [kbase, kbase+size)
    bool bounded = false;
    int nb = 0;
    double plaus_lo = -inf, plaus_hi = inf;
    double m1 = 0, mu2 = 0, mu3 = 0, mu4 = 0;
    std::string problem;

    int bin(double x) const
    {
        if (discrete)
        {
            long long k = (long long)x - kbase;
            if (k < 0)
                return 0;
            if (k >= (long long)binof.size())
                return nb - 1;
            return binof[std::size_t(k)];
        }
        return int(std::upper_bound(edges.begin(), edges.end(), x) - edges.begin());
    }
    // sample that the target distribution cannot produce (mass < 1e-30 beyond it, or pmf == 0)
    bool impossible(double x) const
    {
        if (!discrete)
            return false;
        if (x < plaus_lo || x > plaus_hi)
            return true;
        long long k = (long long)x - kbase;
        if (bounded && k >= 0 && k < (long long)pm.size() && pm[std::size_t(k)] == 0)
            return true;
        return false;
    }
};

constexpr double min_expected = 100;  // DESIGN: >= 100 expected per bin

inline Hist build_hist(Marginal const& m, u64 N)
{
    Hist h;
    h.discrete = m.discrete;
    if (!m.discrete)
    {
        if (!m.cdf)
            return h;
        // cumulative targets: equal-probability bulk + geometric ladder in both tails
        int B = int(std::min<u64>(64, N / 250));
        if (B < 2)
            return h;
        std::vector<double> q;
        for (int j = 1; j < B; ++j)
            q.push_back(double(j) / B);
        for (double t = 1.2 * min_expected / double(N); t < 1.0 / B; t *= 4)
        {
            q.push_back(t);
            q.push_back(1 - t);
        }
        std::sort(q.begin(), q.end());
        std::vector<double> e;
        for (double qq : q)
        {
            double x = dstat::quantile_bisect(m.cdf, qq, m.sup.lo, m.sup.hi);
            // keep edges out of the subnormal neighbourhood: there the samples (roundings
            // of real values to a grid as coarse as the values themselves) cannot be
            // compared with exact-real bin probabilities
            if (x != 0 && std::fabs(x) < 1e-290)
                x = std::copysign(1e-290, x);
            if (e.empty() || x > e.back())
                e.push_back(x);
        }
        // probabilities of [-inf,e0), [e0,e1) ... [e_last, inf)
        std::vector<double> F;
        for (double x : e)
            F.push_back(m.cdf(x));
        std::vector<double> p;
        for (std::size_t i = 0; i <= e.size(); ++i)
        {
            double a = i == 0 ? 0.0 : F[i - 1];
            double b = i == e.size() ? 1.0 : F[i];
            p.push_back(b - a);
        }
        // merge bins below the expected-count floor into the smaller neighbour
        for (;;)
        {
            std::size_t worst = p.size();
            for (std::size_t i = 0; i < p.size(); ++i)
                if (p[i] * double(N) < min_expected && (worst == p.size() || p[i] < p[worst]))
                    worst = i;
            if (worst == p.size() || p.size() < 2)
                break;
            std::size_t into;
            if (worst == 0)
                into = 1;
            else if (worst + 1 == p.size())
                into = worst - 1;
            else
                into = p[worst - 1] < p[worst + 1] ? worst - 1 : worst + 1;
            p[into] += p[worst];
            // remove edge between worst and into
            std::size_t edge = std::min(worst, into);
            e.erase(e.begin() + long(edge));
            p.erase(p.begin() + long(worst));
        }
        h.edges = e;
        h.prob = p;
        h.nb = int(p.size());
        h.usable = h.nb >= 2;
        return h;
    }
    // discrete
    if (!m.pmf)
        return h;
    std::size_t const cap = 8000000;
    long long klo, khi;
    if (m.kmax >= 0)
    {
        klo = (long long)m.kmin;
        khi = (long long)m.kmax;
        if (u64(khi - klo + 1) > cap)
        {
            h.problem = "pmf enumeration too large";
            return h;
        }
        h.bounded = true;
    }
    else
    {
        long long mode = (long long)m.kmode;
        klo = mode;
        while (klo > (long long)m.kmin && m.pmf(double(klo - 1)) > 1e-45
               && u64(mode - klo) < cap / 2)
            --klo;
        khi = mode;
        while (m.pmf(double(khi + 1)) > 1e-45 && u64(khi - mode) < cap / 2)
            ++khi;
    }
    h.kbase = klo;
    std::size_t n = std::size_t(khi - klo + 1);
    h.pm.resize(n);
    long double tot = 0;
    for (std::size_t i = 0; i < n; ++i)
    {
        h.pm[i] = m.pmf(double(klo + (long long)i));
        tot += h.pm[i];
    }
    if (!(std::fabs(double(tot) - 1) < 1e-9))
    {
        h.problem = "reference pmf does not sum to 1";
        return h;
    }
    // moments
    long double s1 = 0;
    for (std::size_t i = 0; i < n; ++i)
        s1 += (long double)(klo + (long long)i) * h.pm[i];
    h.m1 = double(s1 / tot);
    long double c2 = 0, c3 = 0, c4 = 0;
    for (std::size_t i = 0; i < n; ++i)
    {
        long double d = (long double)(klo + (long long)i) - h.m1;
        c2 += d * d * h.pm[i];
        c3 += d * d * d * h.pm[i];
        c4 += d * d * d * d * h.pm[i];
    }
    h.mu2 = double(c2 / tot);
    h.mu3 = double(c3 / tot);
    h.mu4 = double(c4 / tot);
    // plausibility window
    {
        long double c = 0;
        std::size_t i = 0;
        for (; i < n; ++i)
        {
            c += h.pm[i];
            if (c >= 1e-30L)
                break;
        }
        h.plaus_lo = double(klo + (long long)std::min(i, n - 1));
        c = 0;
        std::size_t j = n;
        while (j > 0)
        {
            --j;
            c += h.pm[j];
            if (c >= 1e-30L)
                break;
        }
        h.plaus_hi = double(klo + (long long)j);
        if (h.bounded)
        {
            h.plaus_lo = std::min(h.plaus_lo, double(klo));
            // below kmin / above kmax is outside the support anyway
        }
    }
    // greedy bins
    h.binof.assign(n, 0);
    std::vector<double> p;
    double acc = 0;
    int cur = 0;
    for (std::size_t i = 0; i < n; ++i)
    {
        h.binof[i] = cur;
        acc += h.pm[i];
        if (acc * double(N) >= 1.2 * min_expected)
        {
            p.push_back(acc);
            acc = 0;
            ++cur;
        }
    }
    if (acc > 0 || p.empty())
    {
        if (p.empty())
        {
            p.push_back(acc);
        }
        else
        {
            // leftover joins the previous bin
            p.back() += acc;
            for (std::size_t i = n; i > 0 && h.binof[i - 1] == cur; --i)
                h.binof[i - 1] = cur - 1;
        }
    }
    h.prob = p;
    h.nb = int(p.size());
    for (auto& b : h.binof)
        b = std::min(b, h.nb - 1);  // trailing zero-probability entries
    h.usable = h.nb >= 2;
    return h;
}

//---------------------------------------------------------------------------//
struct Accum
{
    Hist h;
    std::vector<u64> cnt;
    u64 n = 0;
    double shift = 0;
    bool have_shift = false;
    long double s1 = 0, s2 = 0, s3 = 0, s4 = 0;
    void add(double x)
    {
        if (h.usable)
            ++cnt[std::size_t(h.bin(x))];
        if (!have_shift)
        {
            have_shift = true;
            // keep the analytic mean when known (set by caller), else first sample
        }
        double d = x - shift;
        double d2 = d * d;
        s1 += d;
        s2 += d2;
        s3 += d2 * d;
        s4 += d2 * d2;
        ++n;
    }
};

struct TestResult
{
    std::string name;  // chi2 | mean | variance
    bool done = false;
    double stat = 0, p = 1;
    json detail;
};

// Evaluate chi-square / mean / variance statistics of one marginal
inline std::vector<TestResult> evaluate(Marginal const& m, Accum const& a)
{
    std::vector<TestResult> out;
    double const N = double(a.n);
    if (a.n < 400)
        return out;
    if (a.h.usable)
    {
        TestResult t;
        t.name = "chi2";
        double x2 = 0;
        json obs = json::array(), ex = json::array();
        for (int i = 0; i < a.h.nb; ++i)
        {
            double e = a.h.prob[std::size_t(i)] * N;
            double d = double(a.cnt[std::size_t(i)]) - e;
            x2 += d * d / e;
            if (a.h.nb <= 80)
            {
                obs.push_back(a.cnt[std::size_t(i)]);
                ex.push_back(e);
            }
        }
        t.done = true;
        t.stat = x2;
        t.p = dstat::chi2_sf(x2, a.h.nb - 1);
        t.detail = {{"chi2", x2}, {"dof", a.h.nb - 1}, {"observed", obs}, {"expected", ex}};
        if (!a.h.discrete)
            t.detail["edges"] = a.h.edges;
        else
            t.detail["kbase"] = a.h.kbase;
        out.push_back(t);
    }
    // moments of the target
    bool have = false, mean_only = m.mean_only;
    double m1 = 0, mu2 = 0, mu3 = 0, mu4 = 0;
    if (m.discrete && a.h.pm.size() > 0 && a.h.problem.empty())
    {
        have = true;
        m1 = a.h.m1;
        mu2 = a.h.mu2;
        mu3 = a.h.mu3;
        mu4 = a.h.mu4;
    }
    else if (m.have_mom)
    {
        have = true;
        m1 = m.m1;
        mu2 = m.mu2;
        mu3 = m.mu3;
        mu4 = m.mu4;
    }
    else if (m.mean_only)
    {
        have = true;
        m1 = m.m1;
    }
    if (!have)
        return out;
    // sums are about a.shift; convert to moments about m1
    double const c = m1 - a.shift;  // x - m1 = (x - shift) - c
    long double S1 = a.s1 / N, S2 = a.s2 / N, S3 = a.s3 / N, S4 = a.s4 / N;
    double e1 = double(S1 - c);
    double e2 = double(S2 - 2 * c * S1 + (long double)c * c);
    double e3 = double(S3 - 3 * c * S2 + 3 * (long double)c * c * S1 - (long double)c * c * c);
    (void)S4;
    if (mean_only)
    {
        // variance and skewness from the sample itself
        double var = e2 - e1 * e1;
        double m3c = e3 - 3 * e1 * e2 + 2 * e1 * e1 * e1;
        mu2 = var;
        mu3 = m3c;
    }
    if (mu2 > 0)
    {
        TestResult t;
        t.name = "mean";
        double skew = mu3 / std::pow(mu2, 1.5);
        // CLT guard: leading Edgeworth correction of a tail probability at z is
        // ~exp(skew z^3 / (6 sqrt N)); require it below ~e^1 at z = 5 (|skew|/sqrt N <= 0.05).
        // Sample-estimated skewness of heavy-tailed data is biased low: stricter (0.01).
        double guard = mean_only ? 0.01 : 0.05;
        if (std::fabs(skew) / std::sqrt(N) <= guard)
        {
            t.done = true;
            t.stat = e1 / std::sqrt(mu2 / N);
            t.p = dstat::two_sided_p(t.stat);
            t.detail = {{"z", t.stat}, {"sample_mean_minus_target", e1}, {"target_mean", m1},
                        {"sigma_of_mean", std::sqrt(mu2 / N)}, {"skewness", skew}};
        }
        else
        {
            t.detail = {{"skipped", "CLT guard"}, {"skewness", skew}};
        }
        out.push_back(t);
    }
    if (!mean_only && mu2 > 0 && mu4 > mu2 * mu2)
    {
        TestResult t;
        t.name = "variance";
        double kurt = mu4 / (mu2 * mu2);
        // sum (x-m1)^2 / N has exact variance (mu4 - mu2^2)/N under the target; its own
        // skewness grows with the kurtosis: only judged for kurtosis <= 20.
        if (kurt <= 20)
        {
            t.done = true;
            t.stat = (e2 - mu2) / std::sqrt((mu4 - mu2 * mu2) / N);
            t.p = dstat::two_sided_p(t.stat);
            t.detail = {{"z", t.stat}, {"second_moment_about_target_mean", e2},
                        {"target_variance", mu2}, {"kurtosis", kurt}};
        }
        else
        {
            t.detail = {{"skipped", "kurtosis guard"}, {"kurtosis", kurt}};
        }
        out.push_back(t);
    }
    return out;
}

}  // namespace distv
