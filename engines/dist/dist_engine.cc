#include "verif_celer.hh"
int main(){return 0;}
