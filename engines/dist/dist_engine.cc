// Engine `dist` (property C15): random samplers respect their documented support, consume a
// bounded number of random draws, and follow their analytic target distribution.
//
// Real code driven: every class in src/celeritas/random/distribution, Selector /
// make_selector, TsaiUrbanDistribution, EnergyLossHelper + the gamma / Gaussian / Urban / delta
// energy-loss samplers (through FluctuationParams built from small Material/Particle/Cutoff
// params), and the direction helpers from_spherical / rotate.
//
// Oracles (all independent of the implementation; see dist_harness.hh / dist_run.hh):
//   support       documented interval with documented open/closed ends, finite values
//   draw count    exact for inverse-CDF samplers, relation 2(k+1) for Knuth's Poisson, x50
//                 expected per sample for rejection samplers (plain streams), 1e6 watchdog
//   distribution  chi-square against exact bin probabilities of the analytic CDF/PMF, exact
//                 variance z-tests on mean and variance, two-stage verdict (p<1e-6 then an
//                 independent 16N re-run must give p<1e-9)
#include <cmath>
#include <iostream>

#include "dist_points_basic.hh"
#include "dist_points_em.hh"

using namespace distv;

namespace
{
//---------------------------------------------------------------------------//
// Direction helpers: deterministic functions, judged case by case.
void direction_cases(Ctx& C, verif::Rng& g)
{
    auto& rep = C.rep;
    constexpr double pi = 3.141592653589793;
    u64 const n = C.args.budget(200000, 20000000);
    double worst_fs = 0, worst_rot = 0, worst_polar = 0, worst_polar_near = 0;

    // unit vector with exactly representable norm ~ 1 (long double normalisation)
    auto unit_from = [](long double x, long double y, long double z) {
        long double nn = std::sqrt(x * x + y * y + z * z);
        return Array<double, 3>{double(x / nn), double(y / nn), double(z / nn)};
    };
    auto random_unit = [&] {
        double mu = g.uniform(-1, 1), phi = g.uniform(0, 2 * pi);
        long double s = std::sqrt(1 - (long double)mu * mu);
        return unit_from(s * std::cos((long double)phi), s * std::sin((long double)phi), mu);
    };

    //---- from_spherical(costheta, phi): precondition -1 <= costheta <= 1
    static double const cvals[] = {1.0, -1.0, 0.0, 1.0 - eps / 2, -1.0 + eps / 2, 1.0 - eps,
                                   0.5, -0.5, 1e-300, -1e-300, 0.7071067811865476};
    static char const* const cnames[] = {"+1", "-1", "0", "1-ulp", "-1+ulp", "1-2ulp", "0.5",
                                         "-0.5", "tiny", "-tiny", "sqrt-half"};
    for (u64 i = 0; i < n; ++i)
    {
        double c;
        std::string cls;
        if (i % 3 == 0)
        {
            int k = int((i / 3) % 11);
            c = cvals[k];
            cls = std::string("special:") + cnames[k];
        }
        else if (i % 3 == 1)
        {
            c = g.uniform(-1, 1);
            cls = "random";
        }
        else
        {
            // near the poles: 1 - c log-uniform
            double d = g.loguniform(1e-16, 1e-2);
            c = (g.coin() ? 1 : -1) * (1 - d);
            cls = "near-pole";
        }
        double phi;
        switch (g.integer(0, 5))
        {
            case 0: phi = 0; break;
            case 1: phi = 2 * pi; break;
            case 2: phi = (g.integer(0, 8)) * pi / 4; break;
            case 3: phi = g.uniform(-1e3, 1e3); break;
            default: phi = g.uniform(0, 2 * pi); break;
        }
        try
        {
            auto v = from_spherical(c, phi);
            double a[3] = {v[0], v[1], v[2]};
            bool fin = std::isfinite(a[0]) && std::isfinite(a[1]) && std::isfinite(a[2]);
            double err = fin ? norm_err(a) : inf;
            if (fin)
                worst_fs = std::max(worst_fs, err);
            if (!(err <= tol_from_spherical) || v[2] != c)
                rep.violation("C15/unit-vector/from_spherical",
                              "from_spherical result is not a unit vector (or z != costheta)",
                              {{"costheta", verif::hexd(c)}, {"phi", verif::hexd(phi)},
                               {"result", jhex(a, 3)}, {"norm_error", err},
                               {"tolerance", tol_from_spherical}, {"seed", C.args.seed},
                               {"index", i}});
            else
                rep.held("from_spherical/" + cls);
        }
        catch (DebugError const& e)
        {
            rep.inconclusive("debug-assert: " + verif::describe(e));
            rep.observe("assert:" + verif::describe(e));
        }
    }

    //---- rotate(dir, rot): preconditions is_soft_unit_vector(dir), is_soft_unit_vector(rot)
    for (u64 i = 0; i < n; ++i)
    {
        Array<double, 3> dir, rot;
        std::string cls;
        // scattered direction
        switch (g.integer(0, 4))
        {
            case 0: dir = {0, 0, 1}; break;
            case 1: dir = {0, 0, -1}; break;
            case 2: {
                double d = g.loguniform(1e-12, 1e-1), ph = g.uniform(0, 2 * pi);
                dir = unit_from(d * std::cos(ph), d * std::sin(ph), g.coin() ? 1 : -1);
                break;
            }
            default: dir = random_unit(); break;
        }
        int k = int(i % 10);
        double sgn = g.coin() ? 1 : -1;
        if (k == 0)
        {
            rot = {0, 0, sgn};
            cls = "pole-exact";
        }
        else if (k == 1)
        {
            // components whose squares vanish next to z = +-1
            double t = g.loguniform(1e-300, 1e-9), ph = g.uniform(0, 2 * pi);
            rot = {t * std::cos(ph), t * std::sin(ph), sgn};
            cls = "pole-subeps";
        }
        else if (k == 2 || k == 3)
        {
            // exactly normalised, polar angle below / around the accuracy switch (0.005)
            double t = k == 2 ? g.loguniform(1e-8, 4.9e-3) : g.uniform(4.9e-3, 5.1e-3);
            double ph = g.uniform(0, 2 * pi);
            rot = unit_from(t * std::cos(ph), t * std::sin(ph), sgn * std::sqrt(1 - t * t));
            cls = k == 2 ? "near-pole" : "at-switch";
        }
        else if (k == 4)
        {
            // soft unit vector on the axis: x = y = 0, |z| = 1 - d with |z|^2 - 1 inside the
            // documented soft tolerance (3e-12)
            double d = g.loguniform(1e-16, 1.2e-12);
            rot = {0, 0, sgn * (1 - d)};
            cls = "pole-soft-unit";
        }
        else if (k == 5)
        {
            static double const ax[6][3]
                = {{1, 0, 0}, {-1, 0, 0}, {0, 1, 0}, {0, -1, 0}, {0, 0, 1}, {0, 0, -1}};
            auto const* a = ax[g.integer(0, 5)];
            rot = {a[0], a[1], a[2]};
            cls = "axis";
        }
        else
        {
            rot = random_unit();
            cls = "random";
        }
        try
        {
            auto r = rotate(dir, rot);
            double a[3] = {r[0], r[1], r[2]};
            bool fin = std::isfinite(a[0]) && std::isfinite(a[1]) && std::isfinite(a[2]);
            double err = fin ? norm_err(a) : inf;
            json w = {{"dir", jhex(dir.data(), 3)}, {"rot", jhex(rot.data(), 3)},
                      {"dir_dec", verif::jarr3(dir)}, {"rot_dec", verif::jarr3(rot)},
                      {"result", jarr_d(a, 3)}, {"norm_error", fin ? json(err) : json("nan")},
                      {"tolerance", tol_make_unit}, {"seed", C.args.seed}, {"index", i},
                      {"class", cls}};
            if (!fin)
                rep.violation("C15/unit-vector/rotate/" + cls,
                              "rotate() returned a non-finite vector for soft-unit inputs", w);
            else if (!(err <= tol_make_unit))
                rep.violation("C15/unit-vector/rotate/" + cls,
                              "rotate() result is not a unit vector", w);
            else
            {
                rep.held("rotate/" + cls);
                worst_rot = std::max(worst_rot, err);
                // recorded, not judged (not part of C15): polar angle w.r.t. rot preserved
                long double dp = (long double)r[0] * rot[0] + (long double)r[1] * rot[1]
                                 + (long double)r[2] * rot[2];
                double pe = double(std::fabs(dp - dir[2]));
                if (cls == "near-pole" || cls == "at-switch")
                    worst_polar_near = std::max(worst_polar_near, pe);
                else if (cls != "pole-soft-unit" && cls != "pole-subeps")
                    worst_polar = std::max(worst_polar, pe);
            }
        }
        catch (DebugError const& e)
        {
            rep.inconclusive("debug-assert: " + verif::describe(e));
            rep.observe("assert:" + verif::describe(e));
        }
    }
    rep.observe_max("from_spherical_norm_error_max (tol 1.8e-15)", worst_fs);
    rep.observe_max("rotate_norm_error_max (tol 1.3e-15)", worst_rot);
    rep.observe_max("rotate_polar_angle_cos_error_max (not judged)", worst_polar);
    rep.observe_max("rotate_polar_angle_cos_error_max_near_pole (not judged)", worst_polar_near);
}
}  // namespace

int main(int argc, char** argv)
{
    auto args = verif::parse_args(argc, argv);
    if (args.property.empty())
        args.property = "C15";
    if (args.property != "C15")
    {
        std::cerr << "dist_engine serves C15 only\n";
        return 2;
    }
    verif::Report rep("C15", "dist", args);
    rep.set_rule(
        "case = one sample drawn from one distribution object at one parameter point (its "
        "support, finiteness and number of 32-bit words drawn are judged online), plus one case "
        "per statistical test (chi-square on exact bin probabilities of the analytic CDF/PMF "
        "with >=100 expected per bin and geometric tail bins; exact-variance z-tests of mean "
        "and variance) per point, plus deterministic from_spherical/rotate cases and "
        "EnergyLossHelper model-selection cases. Streams per point: plain random (N = 1e5 quick, "
        "1e6-4e6 thorough, x10-30 right above the Poisson switch-over), hostile (runs of extreme "
        "words, p = 0.02 and 0.25, N/4 each) and ~190 scripted streams that put canonical 0, "
        "2^-53, 1/4, 1/2, 3/4, 1-2^-52, 1-2^-53 at each of the first six draws / in runs. A "
        "coverage cell is (distribution or routine x parameter regime/branch); parameter points "
        "are fixed at branch thresholds (Poisson lambda 16, gamma alpha 1, helper kappa / "
        "2-sigma / Tmax=2Tcut / E0 switches, truncated-normal acceptance limits) and drawn from "
        "the seed inside each regime. Non-trivial = at least one sample judged.");
    rep.assume("glibc libm (log, exp, sin, cos, erfc, lgamma) accurate to the stated few ulp");
    rep.assume("the analytic targets are the ones written in the classes' doc comments; for "
               "PoissonDistribution above lambda = 16 the documented target is the Gaussian "
               "approximation rounded to nearest (as G4Poisson, negative values -> 0)");
    rep.assume("a sample equal to an excluded end point (or within the derived rounding slack) is "
               "the rounding of an in-support real value and is not judged");

    std::string why;
    if (!dstat::self_check(why))
    {
        std::cerr << "dist_engine: special-function self check failed: " << why << "\n";
        return 2;
    }
    rep.observe("special_function_self_check_passed");

    Ctx C{args, rep};
    C.asan = args.get("variant", "plain") == "asan";
    C.only = args.get("only", "");
    verif::Rng g(verif::mix_seed(args.seed, 0xC15));
    try
    {
        points_uniform(C, g);
        points_exponential(C, g);
        points_normal(C, g);
        points_gamma(C, g);
        points_poisson(C, g);
        points_reciprocal(C, g);
        points_inverse_square(C, g);
        points_radial(C, g);
        points_isotropic(C);
        points_box(C, g);
        points_bernoulli(C, g);
        points_rejection(C, g);
        points_selector(C, g);
        points_delta(C);
        points_tsai(C, g);
        points_eloss_direct(C, g);
        {
            ElossWorld W;
            points_eloss_helper(C, W, g);
        }
        if (C.only.empty() || C.only == "direction")
            direction_cases(C, g);
    }
    catch (std::exception const& e)
    {
        std::cerr << "dist_engine: harness failure: " << e.what() << "\n";
        return 2;
    }
    return rep.finish();
}
