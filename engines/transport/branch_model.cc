#include "branch_model.hh"

#include <cmath>

#include "corecel/math/ArrayUtils.hh"
#include "celeritas/Quantities.hh"
#include "celeritas/global/ActionLauncher.hh"
#include "celeritas/global/CoreParams.hh"
#include "celeritas/global/CoreState.hh"
#include "celeritas/global/CoreTrackView.hh"
#include "celeritas/global/TrackExecutor.hh"
#include "celeritas/grid/ValueGridBuilder.hh"
#include "celeritas/mat/MaterialParams.hh"
#include "celeritas/mat/MaterialView.hh"
#include "celeritas/phys/Interaction.hh"
#include "celeritas/phys/InteractionApplier.hh"
#include "celeritas/phys/ParticleParams.hh"
#include "celeritas/random/distribution/GenerateCanonical.hh"
#include "celeritas/random/distribution/IsotropicDistribution.hh"

using namespace celeritas;

namespace vt
{
namespace
{
//---------------------------------------------------------------------------//
// Sample a branching interaction that conserves A = T + 2mc^2[antiparticle] exactly by
// construction up to rounding: the secondaries take random fractions of a budget, the
// remainder stays with the incident particle (scattered) or is deposited (absorbed).
struct BranchExecutor
{
    BranchData d;

    inline Interaction operator()(CoreTrackView const& track)
    {
        auto alloc = track.make_physics_step_view().make_secondary_allocator();
        auto particle = track.make_particle_view();
        auto rng = track.make_rng_engine();
        double const e_inc = particle.energy().value();
        bool const inc_positron = (particle.particle_id() == d.positron);

        int nsec = int(generate_canonical(rng) * (d.max_secondaries + 1));
        if (nsec > d.max_secondaries)
            nsec = d.max_secondaries;
        bool kill = generate_canonical(rng) < d.kill_prob;
        if (e_inc < d.absorb_below)
        {
            // low-energy cut-off of the branching cascade: absorb and deposit locally, so no
            // particle is ever produced below the model's lower energy bound
            kill = true;
            nsec = 0;
        }

        // A stopped positron cannot be handled here (annihilation does that)
        double budget = kill ? e_inc + (inc_positron ? 2 * d.mc2 : 0.0)
                             : e_inc * (0.1 + 0.8 * generate_canonical(rng));
        if (!(budget > 0))
        {
            return Interaction::from_unchanged();
        }

        Secondary* secs = nullptr;
        if (nsec > 0)
        {
            secs = alloc(nsec);
            if (!secs)
            {
                return Interaction::from_failure();
            }
        }

        IsotropicDistribution<real_type> sample_dir;
        double remaining = budget;
        for (int k = 0; k < nsec; ++k)
        {
            double u = generate_canonical(rng);
            int which = int(generate_canonical(rng) * 3);
            ParticleId pid = which == 0 ? d.gamma : which == 1 ? d.electron : d.positron;
            if (pid == d.positron && (!d.positrons || remaining <= 2 * d.mc2 * 1.5))
                pid = d.electron;
            double avail = remaining - (pid == d.positron ? 2 * d.mc2 : 0.0);
            double e_sec = avail * (0.05 + 0.9 * u);
            if (!(e_sec > 2 * d.emin))
            {
                // nothing left to give: leave a cleared (null) secondary
                secs[k] = {};
                continue;
            }
            secs[k].particle_id = pid;
            secs[k].energy = units::MevEnergy{e_sec};
            secs[k].direction = sample_dir(rng);
            remaining -= e_sec + (pid == d.positron ? 2 * d.mc2 : 0.0);
        }

        Interaction result;
        if (kill)
        {
            result = Interaction::from_absorption();
            result.energy_deposition = units::MevEnergy{remaining};
        }
        else
        {
            // the budget not handed to secondaries returns to the incident particle
            double used = budget - remaining;
            result.energy = units::MevEnergy{e_inc - used};
            result.direction = sample_dir(rng);
            result.action = Interaction::Action::scattered;
        }
        result.secondaries = {secs, static_cast<size_type>(nsec)};
        return result;
    }
};

class BranchModel final : public Model
{
  public:
    BranchModel(ActionId id, BranchProcess::Input const& inp, BranchData d)
        : id_(id), inp_(inp), d_(d)
    {
        label_ = "branch-model-" + std::to_string(inp.particle.get());
    }

    SetApplicability applicability() const final
    {
        Applicability a;
        a.particle = inp_.particle;
        a.lower = units::MevEnergy{inp_.emin};
        a.upper = units::MevEnergy{inp_.emax};
        return {a};
    }
    MicroXsBuilders micro_xs(Applicability) const final { return {}; }

    void step(CoreParams const& params, CoreStateHost& state) const final
    {
        auto execute = make_action_track_executor(params.ptr<MemSpace::native>(),
                                                  state.ptr(),
                                                  this->action_id(),
                                                  InteractionApplier{BranchExecutor{d_}});
        return launch_action(*this, params, state, execute);
    }
    void step(CoreParams const&, CoreStateDevice&) const final { CELER_NOT_CONFIGURED("device"); }

    ActionId action_id() const final { return id_; }
    std::string_view label() const final { return label_; }
    std::string_view description() const final { return "verification branching model"; }

  private:
    ActionId id_;
    BranchProcess::Input inp_;
    BranchData d_;
    std::string label_;
};
}  // namespace

//---------------------------------------------------------------------------//
auto BranchProcess::build_models(ActionIdIter start_id) const -> VecModel
{
    BranchData d;
    d.gamma = inp_.particles->find(pdg::gamma());
    d.electron = inp_.particles->find(pdg::electron());
    d.positron = inp_.particles->find(pdg::positron());
    d.max_secondaries = inp_.max_secondaries;
    d.kill_prob = inp_.kill_prob;
    d.positrons = inp_.positrons;
    d.absorb_below = inp_.absorb_below;
    d.emin = inp_.emin;
    return {std::make_shared<BranchModel>(*start_id++, inp_, d)};
}

bool BranchProcess::use_integral_xs() const
{
    return inp_.particles->get(inp_.particle).charge() != zero_quantity();
}

auto BranchProcess::step_limits(Applicability applic) const -> StepLimitBuilders
{
    using VecDbl = std::vector<double>;
    MaterialView mat(inp_.materials->host_ref(), applic.material);
    real_type numdens = mat.number_density();

    StepLimitBuilders builders;
    double xs = inp_.xs_barn * 1e-24 * numdens;  // 1/cm
    // 4 points per decade; the first knot is zero so that xs(E=0) == 0: PhysicsParams treats a
    // positive cross section at zero energy as an at-rest process
    VecDbl xsv(49, xs);
    xsv[0] = 0;
    builders[ValueGridType::macro_xs] = std::make_unique<ValueGridLogBuilder>(
        applic.lower.value(), applic.upper.value(), xsv);

    bool charged = inp_.particles->get(inp_.particle).charge() != zero_quantity();
    if (charged && inp_.eloss > 0)
    {
        double rate = inp_.eloss * numdens;  // MeV/cm
        builders[ValueGridType::energy_loss] = std::make_unique<ValueGridLogBuilder>(
            applic.lower.value(), applic.upper.value(), VecDbl{rate, rate});
        builders[ValueGridType::range] = std::make_unique<ValueGridLogBuilder>(
            applic.lower.value(),
            applic.upper.value(),
            VecDbl{applic.lower.value() / rate, applic.upper.value() / rate});
    }
    return builders;
}

}  // namespace vt
