#include "monitors.hh"

#include <cmath>
#include <limits>

#include "celeritas/global/CoreState.hh"
#include "celeritas/track/TrackInitData.hh"

#include "ref_locator.hh"

using namespace celeritas;

namespace vt
{
namespace
{
constexpr unsigned char S_INACTIVE = 0, S_INIT = 1, S_ALIVE = 2, S_ERRORED = 3, S_KILLED = 4;
constexpr double eps = std::numeric_limits<double>::epsilon();

inline std::uint64_t b(double x)
{
    return verif::bits_of(x);
}
inline bool same3(double const* a, double const* c)
{
    return b(a[0]) == b(c[0]) && b(a[1]) == b(c[1]) && b(a[2]) == b(c[2]);
}
inline double norm3(double const* a)
{
    return std::sqrt(a[0] * a[0] + a[1] * a[1] + a[2] * a[2]);
}
inline double dist3(double const* a, double const* c)
{
    double d[3] = {a[0] - c[0], a[1] - c[1], a[2] - c[2]};
    return norm3(d);
}
json j3(double const* a)
{
    return json::array({a[0], a[1], a[2]});
}
char const* particle_name(int p)
{
    static char const* const n[] = {"gamma", "e-", "e+"};
    return (p >= 0 && p < 3) ? n[p] : "?";
}
}  // namespace

//---------------------------------------------------------------------------//
StateMonitor::StateMonitor(Problem const& prob, verif::Report& rep, MonitorOptions opts, json context)
    : prob_(prob), rep_(rep), opts_(std::move(opts)), context_(std::move(context))
{
}

void StateMonitor::fail(std::string const& prop, std::string const& monitor, std::string const& site,
                        std::string const& detail, json extra)
{
    std::string k = prop + "/" + monitor + "/" + site;
    if (opts_.c16 && (prop == "C01" || prop == "C02"))
    {
        // C16 claims exact energy balance and completion *under starvation*: the ledger and
        // population monitors report under C16 in those runs
        ++nviol_;
        json w = context_;
        w["iteration"] = iter_;
        w["observed"] = std::move(extra);
        rep_.violation_in_case("C16/under-storage-limit/" + k, detail, std::move(w));
        return;
    }
    if (prop != opts_.report_prefix)
    {
        // another property's monitor: recorded, judged by that property's own check
        rep_.observe("cross-observation:" + k);
        return;
    }
    ++nviol_;
    json w = context_;
    w["iteration"] = iter_;
    w["observed"] = std::move(extra);
    rep_.violation_in_case(k, detail, std::move(w));
}

void StateMonitor::add_primaries(Span<Primary const> prims)
{
    for (auto const& p : prims)
    {
        BirthKey k;
        k.event = int(p.event_id.get());
        k.parent = -1;
        k.particle = int(p.particle_id.get());
        k.e = b(p.energy.value());
        k.t = b(p.time);
        for (int i = 0; i < 3; ++i)
        {
            k.p[i] = b(p.position[i]);
            k.d[i] = b(p.direction[i]);
        }
        pending_[k] += 1;
        ++pending_count_;
        events_[k.event].a_in += avail(k.particle, p.energy.value());
    }
}

void StateMonitor::on_reset()
{
    tracks_.clear();
    pending_.clear();
    pending_count_ = 0;
    std::fill(slot_occupant_.begin(), slot_occupant_.end(), -1);
    live_ = 0;
    events_.clear();
}

//---------------------------------------------------------------------------//
void StateMonitor::on_iteration(IterRec const& it,
                                StepperResult const& result,
                                CoreStateCounters const& counters,
                                Stepper<MemSpace::host>::StateRef const& state,
                                std::size_t primaries_in_call)
{
    ++iter_;
    std::size_t const n = it.slots.size();
    if (slot_occupant_.size() != n)
        slot_occupant_.assign(n, -1);
    for (int p = 0; p < P_COUNT; ++p)
    {
        if (!it.visited[p])
        {
            rep_.observe("probe-point-not-visited:" + std::to_string(p));
            return;
        }
    }
    std::string const along = prob_.spec.along + (prob_.spec.msc ? "+msc" : "") + (prob_.spec.fluct ? "+fluct" : "");
    bool want_trace = trace_.size() < 12;

    //// 1. population at START: new tracks, slot bookkeeping ////
    std::size_t nonin_start = 0, new_tracks = 0;
    for (std::size_t i = 0; i < n; ++i)
    {
        SlotRec const& r = it.slots[i];
        unsigned char st = r.status[P_START];
        if (st == S_INACTIVE)
        {
            if (slot_occupant_[i] != -1)
            {
                fail("C02", "population", "track-vanished",
                     "a live track's slot is inactive at the start of the next step",
                     {{"slot", i}, {"track_key", slot_occupant_[i]}});
                auto itT = tracks_.find(std::uint64_t(slot_occupant_[i]));
                if (itT != tracks_.end() && !itT->second.finished)
                {
                    itT->second.finished = true;
                    --live_;
                }
                slot_occupant_[i] = -1;
            }
            continue;
        }
        ++nonin_start;
        std::uint64_t k = key(r.event_start, r.track_start);
        auto itT = tracks_.find(k);
        if (itT == tracks_.end())
        {
            ++new_tracks;
            BirthKey bk;
            bk.event = r.event_start;
            bk.parent = r.parent_start;
            bk.particle = r.particle_start;
            bk.e = b(r.e_start);
            bk.t = b(r.time_start);
            for (int c = 0; c < 3; ++c)
            {
                bk.p[c] = b(r.pos_start[c]);
                bk.d[c] = b(r.dir_start[c]);
            }
            json born = {{"slot", i}, {"event", r.event_start}, {"track", r.track_start},
                         {"parent", r.parent_start}, {"particle", r.particle_start}, {"energy", r.e_start},
                         {"pos", j3(r.pos_start)}, {"dir", j3(r.dir_start)}, {"time", r.time_start}};
            auto pit = pending_.find(bk);
            if (pit == pending_.end())
            {
                if (st != S_ERRORED)
                    fail("C02", "birth", r.parent_start < 0 ? "unmatched-primary" : "unmatched-secondary",
                         "a new track does not correspond to any pending primary / emitted secondary "
                         "(event, parent, particle, energy, time, position, direction compared bit-wise)",
                         born);
                else
                    rep_.observe("errored-at-initialisation");
            }
            else
            {
                if (--pit->second == 0)
                    pending_.erase(pit);
                --pending_count_;
            }
            if (st == S_ERRORED)
            {
                // failed geometry initialisation: position/direction not reliable; match on
                // identity only (drop one pending birth with the same event/parent/particle/energy)
                if (pit == pending_.end())
                {
                    for (auto p2 = pending_.begin(); p2 != pending_.end(); ++p2)
                    {
                        if (p2->first.event == bk.event && p2->first.parent == bk.parent
                            && p2->first.particle == bk.particle && p2->first.e == bk.e)
                        {
                            if (--p2->second == 0)
                                pending_.erase(p2);
                            --pending_count_;
                            break;
                        }
                    }
                }
            }
            if (r.parent_start >= 0)
            {
                auto pt = tracks_.find(key(r.event_start, r.parent_start));
                if (pt == tracks_.end())
                    fail("C02", "birth", "parent-missing",
                         "a new track's parent id is not a track of the same event", born);
                else
                    pt->second.children_a += avail(r.particle_start, r.e_start);
            }
            if (slot_occupant_[i] != -1)
                fail("C02", "slot", "double-booked",
                     "a new track was initialised in a slot whose previous occupant had not finished",
                     born);
            if (st != S_INIT && st != S_ERRORED)
                fail("C02", "birth", "status", "a new track is not in the initializing state", born);
            if (r.nsteps_start != 0)
                fail("C02", "step-count", "birth-nonzero", "a new track starts with a non-zero step count", born);
            TrackState t;
            t.event = r.event_start;
            t.id = r.track_start;
            t.parent = r.parent_start;
            t.particle = r.particle_start;
            t.slot = int(i);
            t.e_birth = r.e_start;
            t.a_birth = avail(r.particle_start, r.e_start);
            t.birth_iter = unsigned(iter_);
            tracks_.emplace(k, t);
            slot_occupant_[i] = std::int64_t(k);
            ++live_;
            ++tracks_total_;
            events_[t.event].tracks += 1;
            cells_.insert(std::string("C02/birth/") + (t.parent < 0 ? "primary" : "secondary") + "/order"
                          + std::to_string(prob_.spec.track_order));
        }
        else
        {
            TrackState& t = itT->second;
            if (t.finished)
                fail("C02", "population", "resurrected", "a finished track is active again",
                     {{"slot", i}, {"event", t.event}, {"track", t.id}});
            else if (t.slot != int(i))
                fail("C02", "population", "moved-slot", "a live track changed slots",
                     {{"slot", i}, {"event", t.event}, {"track", t.id}, {"old_slot", t.slot}});
            if (st == S_INIT)
                fail("C02", "population", "duplicate-id",
                     "a track in the initializing state carries the id of an existing track",
                     {{"slot", i}, {"event", t.event}, {"track", t.id}});
        }
    }
    if (nonin_start != live_)
        fail("C02", "population", "count",
             "number of occupied slots differs from the model's live-track count",
             {{"occupied", nonin_start}, {"model_live", live_}});
    if (result.active != nonin_start)
        fail("C02", "counter", "active", "StepperResult.active differs from the occupied slots at step start",
             {{"reported", result.active}, {"true", nonin_start}});
    if (result.generated != primaries_in_call)
        fail("C02", "counter", "generated", "StepperResult.generated differs from the primaries inserted",
             {{"reported", result.generated}, {"true", primaries_in_call}});

    //// 2. per-slot step processing ////
    std::size_t inplace_new = 0, alive_end = 0;
    for (std::size_t i = 0; i < n; ++i)
    {
        SlotRec const& r = it.slots[i];
        unsigned char const s_start = r.status[P_START], s_pre = r.status[P_PRE], s_along = r.status[P_ALONG],
                            s_sel = r.status[P_SELECT], s_post = r.status[P_POST], s_end = r.status[P_END];
        if (s_end != S_INACTIVE)
            ++alive_end;
        if (s_start == S_INACTIVE)
        {
            // must stay inactive through the step
            if (s_pre != S_INACTIVE || s_along != S_INACTIVE || s_sel != S_INACTIVE || s_post != S_INACTIVE
                || s_end != S_INACTIVE)
                fail("C05", "status", "inactive-slot-activated",
                     "an inactive slot became active in the middle of a step", {{"slot", i}});
            continue;
        }
        ++steps_;
        std::uint64_t k = key(r.event_start, r.track_start);
        auto itT = tracks_.find(k);
        if (itT == tracks_.end())
            continue;  // cannot happen: registered above
        TrackState& t = itT->second;
        events_[t.event].steps += 1;

        json where = {{"slot", i}, {"event", t.event}, {"track", t.id}, {"particle", t.particle},
                      {"step", r.nsteps_pre}};
        auto step_json = [&]() {
            json j = where;
            j["status"] = json::array({s_start, s_pre, s_along, s_sel, s_post, s_end});
            j["e_pre"] = r.e_pre;
            j["e_along"] = r.e_along;
            j["e_post"] = r.e_post;
            j["pos_pre"] = j3(r.pos_pre);
            j["pos_post"] = j3(r.pos_post);
            j["dir_pre"] = j3(r.dir_pre);
            j["dir_post"] = j3(r.dir_post);
            j["vol_pre"] = r.vol_pre;
            j["vol_post"] = r.vol_post;
            j["time_pre"] = r.time_pre;
            j["time_post"] = r.time_post;
            j["step_limit"] = r.step_limit;
            j["step_along"] = r.step_along;
            j["step_post"] = r.step_post;
            j["action_pre"] = action_label(r.action_pre);
            j["action_along"] = action_label(r.action_along);
            j["action_post"] = action_label(r.action_post);
            j["edep_along"] = r.edep_along;
            j["edep_post"] = r.edep_post;
            j["outside_post"] = r.outside_post;
            json secs = json::array();
            for (auto const& s : r.secs)
                secs.push_back({{"particle", s.particle}, {"energy", s.energy}});
            j["secondaries"] = secs;
            j["secs_cleared"] = r.secs_cleared;
            j["pos_along"] = j3(r.pos_along);
            j["dir_along"] = j3(r.dir_along);
            j["msc"] = {{"true", r.msc_true}, {"geom", r.msc_geom}, {"alpha", r.msc_alpha}};
            j["range_pre"] = r.range_pre;
            j["mfp_pre"] = r.mfp_pre;
            j["mfp_along"] = r.mfp_along;
            j["macro_xs"] = r.macro_xs;
            return j;
        };

        // identity stable within the step
        if (r.event != r.event_start || r.track != r.track_start || r.track_post != r.track_start
            || r.particle != r.particle_start || r.particle_post != r.particle_start)
            fail("C05", "identity", "changed-within-step",
                 "event/track/particle identity of a slot changed between step start and post-step", step_json());

        // status only moves forward: initializing < alive < {errored, killed}
        {
            unsigned char seq[5] = {s_start, s_pre, s_along, s_sel, s_post};
            bool ok = true;
            for (int q = 0; q < 5; ++q)
                ok = ok && seq[q] != S_INACTIVE && seq[q] != status_unseen;
            for (int q = 1; q < 5; ++q)
                ok = ok && seq[q] >= seq[q - 1];
            ok = ok && s_pre != S_INIT;
            if (!ok)
                fail("C05", "status", "backward",
                     "track status moved backwards (or to inactive) inside a step", step_json());
            bool end_ok = (s_post == S_ALIVE && s_end == S_ALIVE && r.track_end == r.track_start)
                          || ((s_post == S_KILLED) && (s_end == S_INACTIVE || s_end == S_INIT));
            if (!end_ok)
                fail("C05", "status", "end-of-step",
                     "end-of-step status inconsistent (alive must stay alive; only killed tracks are "
                     "retired or replaced in place)",
                     step_json());
        }
        if (s_end == S_INIT)
        {
            ++inplace_new;
            if (r.track_end == r.track_start && r.event_end == r.event_start)
                fail("C02", "population", "inplace-same-id",
                     "slot re-initialised in place with the id of the track that just died", step_json());
        }

        // step counter
        if (r.nsteps_pre != t.steps)
            fail("C02", "step-count", "pre", "step counter at pre-step differs from the number of steps taken",
                 step_json());
        bool const errored_in_step = (s_along == S_ERRORED || s_pre == S_ERRORED);
        if (!errored_in_step && r.nsteps_post != t.steps + 1)
            fail("C02", "step-count", "post", "step counter did not increase by exactly one", step_json());
        t.steps = r.nsteps_post;

        bool const failure = (r.action_post == prob_.ids.failure);
        bool const physical = (s_pre == S_ALIVE) && !errored_in_step && s_post != S_ERRORED;

        //// C05: continuity with the previous step ////
        if (t.have_post && s_pre == S_ALIVE)
        {
            bool ok = same3(r.pos_pre, t.pos) && same3(r.dir_pre, t.dir) && b(r.e_pre) == b(t.e)
                      && b(r.time_pre) == b(t.time) && r.vol_pre == t.vol;
            if (!ok)
            {
                json j = step_json();
                j["prev_post"] = {{"pos", j3(t.pos)}, {"dir", j3(t.dir)}, {"e", t.e}, {"time", t.time}, {"vol", t.vol}};
                fail("C05", "continuity", "post-to-pre",
                     "pre-step state differs from the previous step's post-step state", j);
            }
        }

        if (physical)
        {
            std::string const alabel = action_label(r.action_post);
            std::string const pname = particle_name(t.particle);
            //// C05 within-step relations ////
            {
                bool fin = std::isfinite(r.time_post);
                for (int cc = 0; cc < 3; ++cc)
                    fin = fin && std::isfinite(r.pos_post[cc]) && std::isfinite(r.dir_post[cc]);
                if (!fin)
                {
                    fail("C05", "state", "non-finite-position-or-direction",
                         "position, direction or time became non-finite during a step", step_json());
                    fatal_ = true;
                    nonterm_ = true;
                }
            }
            if (!(r.time_post >= r.time_pre))
                fail("C05", "time", "decreased", "time decreased over a step", step_json());
            if (!(r.e_post <= r.e_pre))
                fail("C05", "energy", "increased", "kinetic energy increased over a step", step_json());
            if (!failure)
            {
                bool at_rest = (r.e_pre == 0 && r.step_limit == 0 && r.action_pre == prob_.ids.discrete);
                if (!(r.step_post > 0) && !at_rest)
                    fail("C05", "step-length", "non-positive",
                         "zero/negative step length for a moving particle", step_json());
                if (at_rest)
                    cells_.insert("C05/at-rest/" + pname);
                // 4 ulp allowance: the limit is re-derived through msc true->geom->true
                if (!(r.step_post <= r.step_limit * (1 + 8 * eps)))
                    fail("C05", "step-length", "exceeds-limit",
                         "step length exceeds the physics limit chosen before the step", step_json());
                double disp = dist3(r.pos_post, r.pos_pre);
                double scale = std::max({1.0, std::fabs(r.pos_pre[0]), std::fabs(r.pos_pre[1]), std::fabs(r.pos_pre[2])});
                // rounding: accumulated position updates ~ few hundred ulp of |pos| in field substeps.
                // In a field the end point of a boundary-limited step is placed on the boundary
                // within FieldDriverOptions::delta_intersection (default 1e-5 cm, used here) of the
                // integrated path, whose length is what is reported: documented tolerance.
                // plus the integrator's truncation-error bound epsilon_rel_max (default 1e-3) x step
                double field_tol = (prob_.spec.along != "linear") ? 1.0e-5 + 1.0e-3 * r.step_post : 0.0;
                if (!(disp <= r.step_post * (1 + 1e-10) + 1e-11 * scale + field_tol))
                {
                    // With Urban MSC in a field the lateral displacement is taken perpendicular
                    // to the *final* direction of the curved geometric path, not to its chord, so
                    // chord + displacement can exceed the true path: separate, specific key
                    bool msc_in_field = (prob_.spec.along != "linear") && r.msc_geom > 0;
                    // rotate() (ArrayUtils.hh) mirrors the azimuth for reference directions within
                    // 0.005 rad of +-z with y < 0: the MSC displacement is then not perpendicular
                    // to the direction of travel (known, unrepaired defect; own key)
                    double const sin_pole = std::sqrt(std::max(0.0, 1 - r.dir_along[2] * r.dir_along[2]));
                    bool near_pole_sign = r.msc_geom > 0 && sin_pole < 0.005 && r.dir_along[1] < 0;
                    double const sin_pole_pre = std::sqrt(std::max(0.0, 1 - r.dir_pre[2] * r.dir_pre[2]));
                    near_pole_sign = near_pole_sign || (r.msc_geom > 0 && sin_pole_pre < 0.005 && r.dir_pre[1] < 0);
                    fail("C05", "step-length",
                         near_pole_sign ? "shorter-than-displacement/msc-near-pole-rotate-sign"
                         : msc_in_field ? "shorter-than-displacement/msc-displacement-in-field"
                                        : "shorter-than-displacement",
                         "step length is shorter than the straight-line displacement", step_json());
                }
                rep_.observe_max("c05_disp_minus_step_cm", disp - r.step_post);
            }
            // a boundary crossing that failed inside the geometry is handed to the tracking cut in
            // the same step (track errored and killed): the step was still limited by a boundary
            bool const crossing_errored = (r.action_along == prob_.ids.boundary
                                           && r.action_post == prob_.ids.tracking_cut && s_post == S_KILLED);
            if (crossing_errored)
                rep_.observe("boundary-crossing-errored-and-cut");
            if (r.vol_post != r.vol_pre && r.action_post != prob_.ids.boundary && !crossing_errored)
                fail("C05", "volume", "changed-without-boundary",
                     "volume changed in a step not limited by a boundary", step_json());
            if (r.outside_post && !(s_post == S_KILLED && r.action_post == prob_.ids.boundary) && !crossing_errored)
                fail("C05", "volume", "outside-not-killed", "track outside the world but not killed by the boundary action",
                     step_json());
            if (r.vol_pre >= 0 && r.mat_pre != prob_.spec.volume_to_mat[r.vol_pre])
                fail("C05", "material", "pre-step", "material state differs from the material of the reported volume",
                     step_json());
            if (s_post == S_ALIVE && r.vol_post >= 0 && r.mat_post != prob_.spec.volume_to_mat[r.vol_post])
                fail("C05", "material", "post-step",
                     "material state differs from the material of the reported post-step volume", step_json());
            // The reported volume contains the reported position (reference locator over the
            // geometry definition).  Judged off boundaries, farther than 1e3 tolerances from
            // every surface; every step of short runs, 1 in 8 afterwards.
            if (prob_.locator && s_post == S_ALIVE && !r.boundary_post && (steps_ < 200000 || (steps_ & 7) == 0))
            {
                auto res = prob_.locator->locate(r.pos_post);
                double tol = 1e3 * prob_.locator->tolerance_at(r.pos_post);
                if (res.valid() && double(res.margin) > tol)
                {
                    if (res.global_volume != r.vol_post)
                    {
                        json j = step_json();
                        j["locator_volume"] = res.global_volume;
                        j["locator_margin"] = double(res.margin);
                        bool msc_disp = r.msc_geom > 0 && r.action_post != prob_.ids.boundary;
                        fail("C05", "volume", msc_disp ? "position-not-in-reported-volume/after-msc"
                                                       : "position-not-in-reported-volume",
                             "the reported post-step position is not inside the reported volume "
                             "(independent point location from the geometry definition)",
                             j);
                    }
                    else
                        cells_.insert("C05/located/" + std::string(r.msc_geom > 0 ? "msc" : "nomsc") + "/" + along);
                    rep_.observe("c05_positions_located");
                }
                else
                    rep_.observe("c05_positions_untestable_near_surface_or_invalid");
            }
            // remaining mean free paths
            if (s_along == S_ALIVE && r.action_along != prob_.ids.discrete && r.action_along != prob_.ids.tracking_cut)
            {
                double expect = r.mfp_pre - r.step_along * r.macro_xs;
                double tol = 4 * eps * (std::fabs(r.mfp_pre) + std::fabs(r.step_along * r.macro_xs));
                if (!(r.mfp_pre > 0) || !r.has_mfp_along || !(r.mfp_along > 0) || !(std::fabs(r.mfp_along - expect) <= tol))
                    fail("C05", "mfp", "update",
                         "remaining interaction MFP after a non-discrete step is not mfp - step*xs > 0", step_json());
            }
            cells_.insert("C05/" + alabel + "/" + along + "/" + (prob_.charge[t.particle] != 0 ? "charged" : "neutral")
                          + (r.vol_post != r.vol_pre ? "/volchange" : ""));

            //// C01 step ledger ////
            double a_pre = avail(t.particle, r.e_pre);
            double post_term = 0;
            if (s_post == S_ALIVE)
                post_term = avail(t.particle, r.e_post);
            else if (r.outside_post && r.action_post == prob_.ids.boundary)
                post_term = avail(t.particle, r.e_post);  // left the world through the boundary action
            double sec_a = 0;
            for (auto const& s : r.secs)
                sec_a += avail(s.particle, s.energy);
            double resid = a_pre - (post_term + r.edep_post + sec_a);
            // rounding allowance: every term results from a handful of additions/subtractions of
            // quantities bounded by A_pre
            double tol = 64 * eps * a_pre + 1e-300;
            bool finite = std::isfinite(r.e_post) && std::isfinite(r.edep_post) && r.e_post >= 0 && r.edep_post >= 0;
            if (!finite)
            {
                // Mechanism-specific key: with the integral approach disabled, a process selected
                // with the pre-step cross section is applied at a post-step energy below its
                // production threshold (precondition of the interactor)
                double thr = -1;
                if (r.mat_pre >= 0 && r.mat_pre < int(prob_.spec.cuts.size()))
                {
                    auto const& cut = prob_.spec.cuts[r.mat_pre];
                    if (alabel.rfind("brems", 0) == 0)
                        thr = cut.gamma;
                    else if (alabel.rfind("ioni", 0) == 0)
                        thr = (t.particle == 1 ? 2.0 : 1.0) * cut.electron;
                }
                if (prob_.spec.disable_integral_xs && thr > 0 && r.e_along <= thr)
                    fail("C01", "interaction-below-production-threshold", "integral-xs-disabled/" + alabel,
                         "integral approach disabled: a discrete process chosen with the pre-step cross "
                         "section was applied at a post-step energy below its production threshold and "
                         "produced a negative/non-finite energy",
                         step_json());
                else
                    fail("C01", "step-balance", "non-finite/" + alabel, "non-finite or negative energy/deposit",
                         step_json());
                fatal_ = true;
                nonterm_ = true;
            }
            else if (!(std::fabs(resid) <= tol))
            {
                json j = step_json();
                j["a_pre"] = a_pre;
                j["residual"] = resid;
                fail("C01", "step-balance", alabel + "/" + pname,
                     "energy not conserved over one step: A_pre != A_post + deposit + sum A(secondaries)", j);
            }
            if (a_pre > 0)
                rep_.observe_max("c01_step_residual_over_eps", std::fabs(resid) / (eps * a_pre));
            // ledger branch classification for coverage
            {
                std::string br;
                if (failure)
                    br = "failed-interaction";
                else if (r.action_post == prob_.ids.range && s_post == S_KILLED)
                    br = "range-end-kill";
                else if (r.action_post == prob_.ids.tracking_cut)
                    br = "tracking-cut";
                else if (r.outside_post)
                    br = "left-world";
                else if (r.action_post == prob_.ids.boundary)
                    br = r.edep_post > 0 ? "boundary+loss" : "boundary";
                else if (r.secs_cleared > 0)
                    br = "subcut-cleared";
                else if (!r.secs.empty())
                    br = "secondaries" + std::to_string(std::min<std::size_t>(r.secs.size(), 3));
                else if (s_post == S_KILLED)
                    br = "absorbed";
                else if (r.edep_along > 0 && r.e_along == 0)
                    br = "stopped";
                else
                    br = r.edep_post > 0 ? "loss" : "noloss";
                bool eplus_sec = false;
                for (auto const& s : r.secs)
                    eplus_sec = eplus_sec || (s.particle >= 0 && prob_.antiparticle[s.particle]);
                if (eplus_sec)
                    br += "+e+created";
                cells_.insert("C01/" + alabel + "/" + pname + "/" + along + "/" + br);
            }
            events_[t.event].dep += r.edep_post;
            t.dep += r.edep_post;
            if (r.outside_post && r.action_post == prob_.ids.boundary)
            {
                t.exited = true;
                t.a_exit = avail(t.particle, r.e_post);
                events_[t.event].a_exit += t.a_exit;
            }

            //// C16: semantics of a failed interaction ////
            if (failure)
            {
                ++failures_;
                bool ok = s_post == S_ALIVE && same3(r.pos_post, r.pos_along) && same3(r.dir_post, r.dir_along)
                          && b(r.e_post) == b(r.e_along) && r.secs.empty() && r.secs_cleared == 0
                          && b(r.edep_post) == b(r.edep_along);
                if (!ok)
                    fail("C16", "failed-interaction", "state-changed",
                         "a failed (out-of-storage) interaction changed the track or emitted something",
                         step_json());
                cells_.insert("C16/failure/" + action_label(r.action_sel) + "/" + pname);
            }
            t.was_failure = failure;
            if (r.step_post == 0 && !failure && r.e_pre != 0)
                ++t.zero_steps;
            else
                t.zero_steps = 0;
            if (t.zero_steps > 100)
            {
                nonterm_ = true;
                fail("C02", "progress", "zero-length-run", "more than 100 consecutive zero-length steps of one track",
                     step_json());
                t.zero_steps = 0;
            }
        }
        else
        {
            // errored tracks: the tracking cut deposits everything; keep the ledgers consistent
            double dep = r.edep_post;
            events_[t.event].dep += dep;
            t.dep += dep;
            t.errored = true;
            rep_.observe("errored-track-steps");
            if (s_post == S_KILLED)
            {
                // energy unaccounted for by an errored track is whatever was not deposited
                double a_pre = avail(t.particle, r.e_pre);
                double resid = a_pre - dep;
                if (std::fabs(resid) > 64 * eps * a_pre)
                    fail("C01", "step-balance", "errored-track",
                         "an errored track was killed without depositing its available energy", step_json());
            }
        }

        // emissions become pending births
        for (auto const& s : r.secs)
        {
            BirthKey bk;
            bk.event = t.event;
            bk.parent = t.id;
            bk.particle = s.particle;
            bk.e = b(s.energy);
            bk.t = b(r.time_post);
            for (int c = 0; c < 3; ++c)
            {
                bk.p[c] = b(r.pos_post[c]);
                bk.d[c] = b(s.dir[c]);
            }
            pending_[bk] += 1;
            ++pending_count_;
        }
        if (!r.secs.empty())
            cells_.insert(std::string("C02/emit/") + (s_post == S_KILLED ? "parent-dies" : "parent-alive") + "/n"
                          + std::to_string(std::min<std::size_t>(r.secs.size(), 6)) + "/order"
                          + std::to_string(prob_.spec.track_order));

        if (want_trace && trace_.size() < 12)
            trace_.push_back(step_json());
        static bool const dbg = std::getenv("VERIF_DEBUG") != nullptr;
        if (dbg && iter_ > 299990)
            std::cerr << "LATE " << step_json().dump() << "\n";
        if (dbg && s_post == S_ALIVE && r.e_post == 0 && r.e_pre != 0)
            std::cerr << "STOPPED-ALIVE " << step_json().dump() << "\n";
        static char const* const dbg_track = std::getenv("VERIF_TRACK");
        if (dbg_track && std::atoi(dbg_track) == t.id && t.steps < 40)
            std::cerr << "TRK " << step_json().dump() << "\n";

        // retire or carry over
        if (s_post == S_KILLED || s_post == S_ERRORED)
        {
            if (s_post == S_ERRORED)
                rep_.observe("errored-not-killed-at-post");
            t.finished = true;
            --live_;
            slot_occupant_[i] = -1;
        }
        else
        {
            t.have_post = true;
            for (int c = 0; c < 3; ++c)
            {
                t.pos[c] = r.pos_post[c];
                t.dir[c] = r.dir_post[c];
            }
            t.e = r.e_post;
            t.time = r.time_post;
            t.vol = r.vol_post;
        }
    }

    //// 3. counters and initializer storage vs the model ////
    if (result.alive != alive_end)
        fail("C02", "counter", "alive", "StepperResult.alive differs from the occupied slots at the end of the step",
             {{"reported", result.alive}, {"true", alive_end}});
    if (counters.num_vacancies + alive_end != n)
        fail("C02", "counter", "vacancies", "num_vacancies + alive != number of track slots",
             {{"vacancies", counters.num_vacancies}, {"alive", alive_end}, {"slots", n}});
    else
    {
        bool ok = true;
        long prev = -1;
        for (size_type v = 0; v < counters.num_vacancies && ok; ++v)
        {
            auto sl = state.init.vacancies[TrackSlotId{v}];
            ok = sl && long(sl.get()) > prev && sl.get() < n && it.slots[sl.get()].status[P_END] == S_INACTIVE;
            prev = sl ? long(sl.get()) : -1;
        }
        if (!ok)
            fail("C02", "vacancies", "content",
                 "the vacancy list is not the sorted duplicate-free set of inactive slots",
                 {{"num_vacancies", counters.num_vacancies}});
    }
    if (result.queued != counters.num_initializers)
        fail("C02", "counter", "queued", "StepperResult.queued differs from the initializer counter",
             {{"reported", result.queued}, {"counter", counters.num_initializers}});
    {
        std::size_t expect = pending_count_ >= inplace_new ? pending_count_ - inplace_new : 0;
        if (counters.num_initializers != expect)
            fail("C02", "counter", "queued-vs-model",
                 "number of queued initializers differs from pending primaries+secondaries not yet "
                 "turned into tracks",
                 {{"reported", counters.num_initializers}, {"model", expect}, {"inplace", inplace_new}});
        else if (counters.num_initializers > 0 && (counters.num_initializers <= 512 || iter_ % 16 == 0))
        {
            // content: every queued initializer is a pending birth (with multiplicity)
            std::map<BirthKey, int> seen;
            bool ok = true;
            std::set<std::uint64_t> ids;
            for (size_type q = 0; q < counters.num_initializers && ok; ++q)
            {
                auto const& ti = state.init.initializers[ItemId<TrackInitializer>{q}];
                BirthKey bk;
                bk.event = ti.sim.event_id ? int(ti.sim.event_id.get()) : -1;
                bk.parent = ti.sim.parent_id ? int(ti.sim.parent_id.get()) : -1;
                bk.particle = ti.particle.particle_id ? int(ti.particle.particle_id.get()) : -1;
                bk.e = b(ti.particle.energy.value());
                bk.t = b(ti.sim.time);
                for (int c = 0; c < 3; ++c)
                {
                    bk.p[c] = b(ti.geo.pos[c]);
                    bk.d[c] = b(ti.geo.dir[c]);
                }
                int cnt = ++seen[bk];
                auto pit = pending_.find(bk);
                ok = pit != pending_.end() && cnt <= pit->second;
                std::uint64_t idk = key(bk.event, ti.sim.track_id ? int(ti.sim.track_id.get()) : -1);
                ok = ok && ids.insert(idk).second && tracks_.find(idk) == tracks_.end();
            }
            if (!ok)
                fail("C02", "initializers", "content",
                     "a queued track initializer is not a pending primary/secondary, or its track id "
                     "is not unique",
                     {{"num_initializers", counters.num_initializers}});
        }
    }
    if (it.alloc_size_end > it.alloc_capacity)
        fail("C16", "secondary-stack", "size-exceeds-capacity", "secondary stack size exceeds its capacity",
             {{"size", it.alloc_size_end}, {"capacity", it.alloc_capacity}});
    cells_.insert("C02/iter/" + std::string(new_tracks == 0 ? "nonew" : "new") + "/"
                  + (counters.num_initializers == 0 ? "q0" : "q+") + "/" + (counters.num_vacancies == 0 ? "v0" : "v+")
                  + "/" + (inplace_new ? "inplace" : "noinplace") + "/order" + std::to_string(prob_.spec.track_order));
}

//---------------------------------------------------------------------------//
void StateMonitor::on_drained()
{
    if (pending_count_ != 0)
    {
        json lost = json::array();
        for (auto const& kv : pending_)
        {
            if (lost.size() >= 5)
                break;
            lost.push_back({{"event", kv.first.event}, {"parent", kv.first.parent},
                            {"particle", kv.first.particle}, {"count", kv.second}});
        }
        fail("C02", "birth", "lost", "the loop drained but primaries/secondaries never became tracks",
             {{"pending", pending_count_}, {"examples", lost}});
    }
    if (live_ != 0)
        fail("C02", "population", "drained-with-live", "alive == queued == 0 reported while the model has live tracks",
             {{"model_live", live_}});
    // track ledgers
    for (auto const& kv : tracks_)
    {
        TrackState const& t = kv.second;
        if (t.errored)
            continue;
        long double out = t.dep + t.children_a + (long double)t.a_exit;
        double resid = double((long double)t.a_birth - out);
        // per-step rounding accumulates over the track's steps
        // each step contributes at most ~2 ulp(A) of rounding (observed max of the step ledger)
        double tol = 4 * eps * t.a_birth * (double(t.steps) + 16);
        if (t.a_birth > 0)
            rep_.observe_max("c01_track_residual_over_eps", std::fabs(resid) / (eps * t.a_birth));
        if (!(std::fabs(resid) <= tol))
            fail("C01", "track-balance", particle_name(t.particle),
                 "track ledger: A_birth != deposits + A(direct secondaries at birth) + A_exit",
                 {{"event", t.event}, {"track", t.id}, {"particle", t.particle}, {"a_birth", t.a_birth},
                  {"deposit", double(t.dep)}, {"children", double(t.children_a)}, {"a_exit", t.a_exit},
                  {"residual", resid}, {"steps", t.steps}});
    }
    for (auto& kv : events_)
    {
        auto& ev = kv.second;
        if (ev.complete)
            continue;
        ev.complete = true;
        long double out = ev.dep + ev.a_exit;
        double resid = double(ev.a_in - out);
        double a_in = double(ev.a_in);
        double tol = 4 * eps * a_in * (double(ev.steps) + 16);
        if (a_in > 0)
            rep_.observe_max("c01_event_residual_over_eps", std::fabs(resid) / (eps * a_in));
        if (!(std::fabs(resid) <= tol))
            fail("C01", "event-balance", "event",
                 "event ledger: sum A(primaries) != sum deposits + sum A(tracks leaving the world)",
                 {{"event", kv.first}, {"a_in", a_in}, {"deposit", double(ev.dep)}, {"a_exit", double(ev.a_exit)},
                  {"residual", resid}, {"steps", ev.steps}, {"tracks", ev.tracks}});
    }
    tracks_.clear();
    std::fill(slot_occupant_.begin(), slot_occupant_.end(), -1);
}

}  // namespace vt
