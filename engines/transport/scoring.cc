// C17: each step of each active track is delivered exactly once to every registered step
// callback with field values equal to the track's state at the step points (truth = probe log),
// restricted only by the detector / non-zero-deposit filters; calorimeter, action and step
// diagnostics equal the corresponding sums/counts of delivered steps.
#include <exception>
#include <memory>
#include <set>

#include "corecel/Assert.hh"
#include "celeritas/geo/GeoParams.hh"
#include "celeritas/global/CoreParams.hh"
#include "celeritas/global/CoreState.hh"
#include "celeritas/global/Stepper.hh"
#include "celeritas/user/ActionDiagnostic.hh"
#include "celeritas/user/SimpleCalo.hh"
#include "celeritas/user/DetectorSteps.hh"
#include "celeritas/user/StepCollector.hh"
#include "celeritas/user/StepData.hh"
#include "celeritas/user/StepDiagnostic.hh"
#include "celeritas/user/StepInterface.hh"

#include "engine_common.hh"
#include "probe.hh"
#include "problem.hh"
#include "verif_celer.hh"

using namespace celeritas;

namespace vt
{
namespace
{
using HostStepper = Stepper<MemSpace::host>;

// What one callback received for one slot in one process_steps call
struct Delivered
{
    bool track_valid = false;
    int track = -1;
    bool has_detector_array = false;
    int detector = -1;
    // selected fields (only meaningful when selected by the union)
    int event = -1, parent = -1, action = -1, particle = -1;
    unsigned step_count = 0;
    double step_length = 0, edep = 0;
    double time[2] = {0, 0}, energy[2] = {0, 0};
    double pos[2][3] = {{0, 0, 0}, {0, 0, 0}}, dir[2][3] = {{0, 0, 0}, {0, 0, 0}};
    int volume[2] = {-1, -1};
};

struct ArraySizes
{
    std::size_t event = 0, parent = 0, action = 0, step_count = 0, step_length = 0, particle = 0, edep = 0,
                detector = 0, track = 0;
    std::size_t time[2] = {0, 0}, pos[2] = {0, 0}, dir[2] = {0, 0}, volume[2] = {0, 0}, energy[2] = {0, 0};
};

class RecorderInterface final : public StepInterface
{
  public:
    RecorderInterface(StepSelection sel, Filters f) : sel_(sel), filters_(std::move(f)) {}
    Filters filters() const final { return filters_; }
    StepSelection selection() const final { return sel_; }
    void process_steps(DeviceStepState) final {}
    void process_steps(HostStepState st) final
    {
        auto const& d = st.steps.data;
        unsigned s = st.stream_id.get();
        if (s >= calls.size())
            return;
        ++calls[s];
        auto& out = last[s];
        auto& sz = sizes[s];
        std::size_t n = d.track_id.size();
        out.assign(n, Delivered());
        sz = ArraySizes();
        sz.track = d.track_id.size();
        sz.detector = d.detector.size();
        sz.event = d.event_id.size();
        sz.parent = d.parent_id.size();
        sz.action = d.action_id.size();
        sz.step_count = d.track_step_count.size();
        sz.step_length = d.step_length.size();
        sz.particle = d.particle.size();
        sz.edep = d.energy_deposition.size();
        for (int p = 0; p < 2; ++p)
        {
            auto const& pt = d.points[p == 0 ? StepPoint::pre : StepPoint::post];
            sz.time[p] = pt.time.size();
            sz.pos[p] = pt.pos.size();
            sz.dir[p] = pt.dir.size();
            sz.volume[p] = pt.volume_id.size();
            sz.energy[p] = pt.energy.size();
        }
        for (std::size_t i = 0; i < n; ++i)
        {
            TrackSlotId t{size_type(i)};
            Delivered& o = out[i];
            o.track_valid = bool(d.track_id[t]);
            o.track = o.track_valid ? int(d.track_id[t].get()) : -1;
            if (!d.detector.empty())
            {
                o.has_detector_array = true;
                o.detector = d.detector[t] ? int(d.detector[t].get()) : -1;
            }
            if (!d.event_id.empty())
                o.event = d.event_id[t] ? int(d.event_id[t].get()) : -1;
            if (!d.parent_id.empty())
                o.parent = d.parent_id[t] ? int(d.parent_id[t].get()) : -1;
            if (!d.action_id.empty())
                o.action = d.action_id[t] ? int(d.action_id[t].get()) : -1;
            if (!d.track_step_count.empty())
                o.step_count = d.track_step_count[t];
            if (!d.step_length.empty())
                o.step_length = d.step_length[t];
            if (!d.particle.empty())
                o.particle = d.particle[t] ? int(d.particle[t].get()) : -1;
            if (!d.energy_deposition.empty())
                o.edep = d.energy_deposition[t].value();
            for (int p = 0; p < 2; ++p)
            {
                auto const& pt = d.points[p == 0 ? StepPoint::pre : StepPoint::post];
                if (!pt.time.empty())
                    o.time[p] = pt.time[t];
                if (!pt.energy.empty())
                    o.energy[p] = pt.energy[t].value();
                if (!pt.volume_id.empty())
                    o.volume[p] = pt.volume_id[t] ? int(pt.volume_id[t].get()) : -1;
                if (!pt.pos.empty())
                    for (int c = 0; c < 3; ++c)
                        o.pos[p][c] = pt.pos[t][c];
                if (!pt.dir.empty())
                    for (int c = 0; c < 3; ++c)
                        o.dir[p][c] = pt.dir[t][c];
            }
        }
        // copy_steps (DetectorSteps.cc) is what detector-mode users call to compact the per-slot
        // arrays into per-hit arrays: its output must be exactly the slots with a valid detector,
        // in slot order, for every selected field, and empty for every unselected one
        if (!d.detector.empty())
        {
            copy_steps(&dso_, st.steps);
            ++copy_checked[s];
            std::vector<size_type> hit;
            for (std::size_t i = 0; i < n; ++i)
                if (d.detector[TrackSlotId{size_type(i)}])
                    hit.push_back(size_type(i));
            auto cmp = [&](auto const& dst, auto const& src, char const* name) {
                if (!copy_mismatch[s].empty())
                    return;
                if (src.empty())
                {
                    if (!dst.empty())
                        copy_mismatch[s] = std::string(name) + ":not-empty-for-unselected-field";
                    return;
                }
                if (dst.size() != hit.size())
                {
                    copy_mismatch[s] = std::string(name) + ":size";
                    return;
                }
                for (std::size_t k = 0; k < hit.size(); ++k)
                    if (!(dst[k] == src[TrackSlotId{hit[k]}]))
                    {
                        copy_mismatch[s] = std::string(name) + ":value";
                        return;
                    }
            };
            cmp(dso_.detector, d.detector, "detector");
            cmp(dso_.track_id, d.track_id, "track_id");
            cmp(dso_.event_id, d.event_id, "event_id");
            cmp(dso_.parent_id, d.parent_id, "parent_id");
            cmp(dso_.track_step_count, d.track_step_count, "track_step_count");
            cmp(dso_.step_length, d.step_length, "step_length");
            cmp(dso_.particle, d.particle, "particle");
            cmp(dso_.energy_deposition, d.energy_deposition, "energy_deposition");
            for (auto sp : {StepPoint::pre, StepPoint::post})
            {
                char const* pn = sp == StepPoint::pre ? "pre." : "post.";
                cmp(dso_.points[sp].time, d.points[sp].time, (std::string(pn) + "time").c_str());
                cmp(dso_.points[sp].pos, d.points[sp].pos, (std::string(pn) + "pos").c_str());
                cmp(dso_.points[sp].dir, d.points[sp].dir, (std::string(pn) + "dir").c_str());
                cmp(dso_.points[sp].energy, d.points[sp].energy, (std::string(pn) + "energy").c_str());
            }
        }
    }

    DetectorStepOutput dso_;
    std::vector<std::string> copy_mismatch = std::vector<std::string>(16);
    std::vector<std::uint64_t> copy_checked = std::vector<std::uint64_t>(16, 0);
    StepSelection sel_;
    Filters filters_;
    // per stream
    std::vector<std::vector<Delivered>> last{std::vector<std::vector<Delivered>>(16)};
    std::vector<ArraySizes> sizes{std::vector<ArraySizes>(16)};
    std::vector<std::uint64_t> calls = std::vector<std::uint64_t>(16, 0);
};

StepSelection random_selection(verif::Rng& r)
{
    StepSelection s;
    double p = r.pick(std::vector<double>{0.2, 0.5, 0.9});
    auto pick = [&] { return r.coin(p); };
    for (auto sp : {StepPoint::pre, StepPoint::post})
    {
        s.points[sp].time = pick();
        s.points[sp].pos = pick();
        s.points[sp].dir = pick();
        s.points[sp].volume_id = pick();
        s.points[sp].energy = pick();
    }
    s.event_id = pick();
    s.parent_id = pick();
    s.track_step_count = pick();
    s.action_id = pick();
    s.step_length = pick();
    s.particle = pick();
    s.energy_deposition = pick();
    if (!s)
        s.event_id = true;
    return s;
}

inline bool beq(double a, double c)
{
    return verif::bits_of(a) == verif::bits_of(c);
}
}  // namespace

int run_c17(verif::Args const& args, verif::Report& rep)
{
    rep.set_rule(
        "A case = one generated problem with a StepCollector configuration: (a) 1-3 recording callbacks "
        "without detectors and random StepSelections, (b) SimpleCalo on 1-4 volumes, or (c) 1-2 recording "
        "callbacks with disjoint detector volumes and random non-zero-deposit flags; plus ActionDiagnostic "
        "and StepDiagnostic. After every stepper call what each callback received (per slot) is compared "
        "with the probe log: delivered <=> active (and in a detector / non-zero deposit when filtered), "
        "every field selected by the union equals the track's state at the pre/post step point bit for "
        "bit, unselected arrays stay empty, each (event,track,step) is delivered exactly once; at the "
        "end calorimeter totals == sum of delivered deposits per detector, action diagnostic == "
        "histogram of (particle, post-step action) over active tracks, step diagnostic == histogram of "
        "steps of killed tracks. Cell = config kind x selection density x slots bucket x family.");

    std::uint64_t ncases = args.budget(150, 8000);
    for (std::uint64_t c = 0; c < ncases; ++c)
    {
        std::uint64_t cseed = verif::mix_seed(args.seed, c * 32452843 + 3);
        verif::Rng rng(cseed);
        std::string family = rng.coin(0.3) ? "branch" : "synth";
        std::string hint = rng.coin(0.3) ? "tiny-slots" : (rng.coin(0.2) ? "field" : "");
        ProblemSpec spec = draw_problem(cseed, family, hint);
        spec.num_track_slots = std::min(spec.num_track_slots, 64);
        spec.status_checker = false;
        int kind = int(rng.integer(0, 2));
        double emax = rng.pick(std::vector<double>{3, 10, 30});
        json ctx = {{"case", c}, {"seed", cseed}, {"problem", spec.to_json()}, {"config_kind", kind}};

        std::vector<std::shared_ptr<RecorderInterface>> recs;
        std::shared_ptr<SimpleCalo> calo;
        std::shared_ptr<ActionDiagnostic> adiag;
        std::shared_ptr<StepDiagnostic> sdiag;
        std::vector<int> calo_volumes;  // detector index -> volume id
        StepSelection union_sel;
        bool have_detectors = false, nonzero = true;
        std::vector<int> det_of_volume;  // volume -> detector id (-1 none)
        int const sdiag_bins = int(rng.integer(3, 40));

        try
        {
            BuildOptions bo;
            bo.customize = [&](Problem& p) {
                auto const& geo = *p.core->geometry();
                det_of_volume.assign(p.num_volumes, -1);
                std::vector<int> mat_vols;
                for (int v = 0; v < p.num_volumes; ++v)
                    if (p.spec.volume_to_mat[v] >= 0)
                        mat_vols.push_back(v);
                StepCollector::VecInterface ifaces;
                if (kind == 0)
                {
                    int n = int(rng.integer(1, 3));
                    for (int i = 0; i < n; ++i)
                    {
                        auto r = std::make_shared<RecorderInterface>(random_selection(rng), StepInterface::Filters{});
                        recs.push_back(r);
                        ifaces.push_back(r);
                        union_sel |= r->sel_;
                    }
                    nonzero = false;
                }
                else if (kind == 1)
                {
                    std::vector<Label> labels;
                    for (int v : mat_vols)
                    {
                        if (labels.empty() || rng.coin(0.5))
                        {
                            labels.push_back(geo.id_to_label(VolumeId(v)));
                            det_of_volume[v] = int(calo_volumes.size());
                            calo_volumes.push_back(v);
                        }
                        if (labels.size() >= 4)
                            break;
                    }
                    calo = std::make_shared<SimpleCalo>("verif-calo", labels, geo, 1);
                    ifaces.push_back(calo);
                    union_sel |= calo->selection();
                    have_detectors = true;
                    nonzero = true;
                }
                else
                {
                    int n = int(rng.integer(1, 2));
                    int next_det = 0;
                    nonzero = true;
                    std::size_t vi = 0;
                    for (int i = 0; i < n; ++i)
                    {
                        StepInterface::Filters f;
                        f.nonzero_energy_deposition = rng.coin(0.5);
                        for (; vi < mat_vols.size(); ++vi)
                        {
                            int v = mat_vols[vi];
                            bool all = (n == 1 && rng.coin(0.3));
                            if (all || f.detectors.empty() || rng.coin(0.4))
                            {
                                f.detectors[VolumeId(v)] = DetectorId(next_det);
                                det_of_volume[v] = next_det++;
                            }
                            if (i + 1 < n && f.detectors.size() >= 2)
                            {
                                ++vi;
                                break;
                            }
                        }
                        if (f.detectors.empty())
                            continue;
                        nonzero = nonzero && f.nonzero_energy_deposition;
                        auto r = std::make_shared<RecorderInterface>(random_selection(rng), f);
                        recs.push_back(r);
                        ifaces.push_back(r);
                        union_sel |= r->sel_;
                    }
                    have_detectors = !recs.empty();
                    if (recs.empty())
                    {
                        auto r = std::make_shared<RecorderInterface>(random_selection(rng), StepInterface::Filters{});
                        recs.push_back(r);
                        ifaces.push_back(r);
                        union_sel |= r->sel_;
                        nonzero = false;
                    }
                }
                StepCollector::make_and_insert(*p.core, ifaces);
                adiag = ActionDiagnostic::make_and_insert(*p.core);
                sdiag = StepDiagnostic::make_and_insert(*p.core, sdiag_bins);
            };
            auto prob = build_problem(spec, bo);
            int const nparticles = 3;
            int const nactions = int(prob->action_labels.size());

            StepperInput si;
            si.params = prob->core;
            si.stream_id = StreamId{0};
            si.num_track_slots = spec.num_track_slots;
            HostStepper step(si);

            // truth accumulators
            std::vector<long double> truth_calo(calo_volumes.size(), 0);
            std::vector<std::vector<size_type>> truth_actions(nparticles, std::vector<size_type>(nactions, 0));
            std::vector<std::vector<size_type>> truth_steps(nparticles, std::vector<size_type>(sdiag_bins + 2, 0));
            std::set<std::tuple<int, int, unsigned>> delivered_once;
            std::uint64_t nviol = 0, delivered_total = 0, steps_total = 0;
            std::string const selcell = std::string("kind") + std::to_string(kind) + "/slots"
                                        + (spec.num_track_slots == 1 ? "1" : spec.num_track_slots <= 4 ? "2-4" : "5+")
                                        + "/" + family;

            auto fail = [&](std::string const& site, std::string const& detail, json extra) {
                ++nviol;
                json w = ctx;
                w["observed"] = std::move(extra);
                rep.violation_in_case("C17/" + site, detail, std::move(w));
            };

            auto check_iteration = [&](IterRec const& it) {
                for (std::size_t ri = 0; ri < recs.size(); ++ri)
                {
                    auto& R = *recs[ri];
                    auto const& out = R.last[0];
                    auto const& sz = R.sizes[0];
                    if (!R.copy_mismatch[0].empty())
                    {
                        std::string what = R.copy_mismatch[0];
                        R.copy_mismatch[0].clear();
                        fail("copy-steps/" + what.substr(what.find(':') + 1),
                             "copy_steps() output differs from the per-slot arrays restricted to slots with a detector",
                             {{"field", what.substr(0, what.find(':'))}});
                    }
                    if (out.size() != it.slots.size())
                    {
                        fail("callback/size", "callback arrays do not have one entry per track slot",
                             {{"delivered", out.size()}, {"slots", it.slots.size()}});
                        continue;
                    }
                    // unselected arrays stay empty; selected have one entry per slot
                    auto expect_size = [&](bool selected, std::size_t got, char const* name) {
                        std::size_t want = selected ? it.slots.size() : 0;
                        if (got != want)
                            fail(std::string("selection/array-size/") + name,
                                 "gathered array size does not match the union of the declared selections",
                                 {{"field", name}, {"size", got}, {"expected", want}});
                    };
                    expect_size(union_sel.event_id, sz.event, "event_id");
                    expect_size(union_sel.parent_id, sz.parent, "parent_id");
                    expect_size(union_sel.action_id, sz.action, "action_id");
                    expect_size(union_sel.track_step_count, sz.step_count, "track_step_count");
                    expect_size(union_sel.step_length, sz.step_length, "step_length");
                    expect_size(union_sel.particle, sz.particle, "particle");
                    expect_size(union_sel.energy_deposition, sz.edep, "energy_deposition");
                    for (int p = 0; p < 2; ++p)
                    {
                        auto const& ps = union_sel.points[p == 0 ? StepPoint::pre : StepPoint::post];
                        expect_size(ps.time, sz.time[p], p ? "post.time" : "pre.time");
                        expect_size(ps.pos, sz.pos[p], p ? "post.pos" : "pre.pos");
                        expect_size(ps.dir, sz.dir[p], p ? "post.dir" : "pre.dir");
                        expect_size(ps.volume_id, sz.volume[p], p ? "post.volume_id" : "pre.volume_id");
                        expect_size(ps.energy, sz.energy[p], p ? "post.energy" : "pre.energy");
                    }
                    for (std::size_t i = 0; i < it.slots.size(); ++i)
                    {
                        SlotRec const& r = it.slots[i];
                        Delivered const& o = out[i];
                        bool active = r.status[P_PRE] != 0;
                        json where = {{"callback", ri}, {"slot", i}, {"event", r.event}, {"track", r.track},
                                      {"step", r.nsteps_post}};
                        if (o.track_valid != active || (active && o.track != r.track))
                        {
                            fail("delivery/track-id", "track id delivered for a slot does not match whether the "
                                                      "slot took a step (null for inactive slots)",
                                 where);
                            continue;
                        }
                        if (!active)
                        {
                            if (have_detectors && o.detector != -1)
                                fail("delivery/inactive-detector", "inactive slot carries a detector id", where);
                            continue;
                        }
                        bool expect_delivered = true;
                        if (have_detectors)
                        {
                            int det = (r.vol_pre >= 0) ? det_of_volume[r.vol_pre] : -1;
                            expect_delivered = det >= 0 && (!nonzero || r.edep_post != 0);
                            int expect_det = expect_delivered ? det : -1;
                            if (o.detector != expect_det)
                            {
                                where["delivered_detector"] = o.detector;
                                where["expected_detector"] = expect_det;
                                where["vol_pre"] = r.vol_pre;
                                where["edep"] = r.edep_post;
                                fail("filter/detector-id",
                                     "detector id differs from the detector of the pre-step volume under the "
                                     "declared filters",
                                     where);
                                continue;
                            }
                        }
                        if (!expect_delivered)
                            continue;
                        if (ri == 0)
                        {
                            ++delivered_total;
                            if (!delivered_once.insert({r.event, r.track, r.nsteps_post}).second)
                                fail("delivery/duplicate", "a (event, track, step) was delivered twice", where);
                        }
                        // field values
                        auto bad = [&](char const* name, json got, json want) {
                            where["field"] = name;
                            where["delivered"] = got;
                            where["truth"] = want;
                            fail(std::string("field/") + name,
                                 "a gathered field differs from the track's state at the step point", where);
                        };
                        if (union_sel.event_id && o.event != r.event_post)
                            bad("event_id", o.event, r.event_post);
                        if (union_sel.parent_id && o.parent != r.parent)
                            bad("parent_id", o.parent, r.parent);
                        if (union_sel.track_step_count && o.step_count != r.nsteps_post)
                            bad("track_step_count", o.step_count, r.nsteps_post);
                        if (union_sel.action_id && o.action != r.action_post)
                            bad("action_id", o.action, r.action_post);
                        if (union_sel.step_length && !beq(o.step_length, r.step_post))
                            bad("step_length", o.step_length, r.step_post);
                        if (union_sel.particle && o.particle != r.particle_post)
                            bad("particle", o.particle, r.particle_post);
                        if (union_sel.energy_deposition && !beq(o.edep, r.edep_post))
                            bad("energy_deposition", o.edep, r.edep_post);
                        auto const& pre = union_sel.points[StepPoint::pre];
                        auto const& post = union_sel.points[StepPoint::post];
                        if (pre.time && !beq(o.time[0], r.time_pre))
                            bad("pre.time", o.time[0], r.time_pre);
                        if (post.time && !beq(o.time[1], r.time_post))
                            bad("post.time", o.time[1], r.time_post);
                        if (pre.energy && !beq(o.energy[0], r.e_pre))
                            bad("pre.energy", o.energy[0], r.e_pre);
                        if (post.energy && !beq(o.energy[1], r.e_post))
                            bad("post.energy", o.energy[1], r.e_post);
                        if (pre.volume_id && o.volume[0] != r.vol_pre)
                            bad("pre.volume_id", o.volume[0], r.vol_pre);
                        if (post.volume_id && o.volume[1] != r.vol_post)
                            bad("post.volume_id", o.volume[1], r.vol_post);
                        for (int cc = 0; cc < 3; ++cc)
                        {
                            if (pre.pos && !beq(o.pos[0][cc], r.pos_pre[cc]))
                                bad("pre.pos", o.pos[0][cc], r.pos_pre[cc]);
                            if (post.pos && !beq(o.pos[1][cc], r.pos_post[cc]))
                                bad("post.pos", o.pos[1][cc], r.pos_post[cc]);
                            if (pre.dir && !beq(o.dir[0][cc], r.dir_pre[cc]))
                                bad("pre.dir", o.dir[0][cc], r.dir_pre[cc]);
                            if (post.dir && !beq(o.dir[1][cc], r.dir_post[cc]))
                                bad("post.dir", o.dir[1][cc], r.dir_post[cc]);
                        }
                    }
                }
                // truth for tallies
                for (auto const& r : it.slots)
                {
                    if (r.status[P_PRE] == 0)
                        continue;
                    ++steps_total;
                    if (r.particle_post >= 0 && r.particle_post < nparticles && r.action_post >= 0
                        && r.action_post < nactions)
                        truth_actions[r.particle_post][r.action_post] += 1;
                    if (r.status[P_POST] == 4 && r.particle_post >= 0)
                        truth_steps[r.particle_post][std::min<unsigned>(r.nsteps_post, sdiag_bins + 1)] += 1;
                    if (calo && r.vol_pre >= 0 && det_of_volume[r.vol_pre] >= 0 && r.edep_post != 0)
                        truth_calo[det_of_volume[r.vol_pre]] += r.edep_post;
                }
            };

            int nev = int(rng.integer(1, 4));
            auto evs = draw_primaries(*prob, rng, nev, 0, 6, emax);
            std::vector<Primary> all;
            for (auto& e : evs)
                all.insert(all.end(), e.begin(), e.end());
            if (all.empty())
            {
                rep.inconclusive("no primaries placed");
                continue;
            }
            step.reseed(UniqueEventId{cseed % 100000});
            auto res = step(make_span(all));
            check_iteration(prob->probes->logs[0].iter);
            std::uint64_t iters = 1;
            while (res && iters < 200000)
            {
                res = step();
                check_iteration(prob->probes->logs[0].iter);
                ++iters;
            }
            if (res)
            {
                rep.inconclusive("iteration cap");
                continue;
            }
            // every active step delivered exactly once when unfiltered
            if (!have_detectors && !recs.empty() && delivered_total != steps_total)
                fail("delivery/count", "number of delivered steps differs from the number of steps taken",
                     {{"delivered", delivered_total}, {"steps", steps_total}});
            // tallies
            if (calo)
            {
                auto tot = calo->calc_total_energy_deposition();
                for (std::size_t d = 0; d < truth_calo.size(); ++d)
                {
                    double t = double(truth_calo[d]);
                    // same positive values; the calorimeter accumulates in double: |error| <= eps N sum
                    double tol = 2 * 2.220446049250313e-16 * double(steps_total + 16) * std::fabs(t) + 1e-300;
                    if (d >= tot.size() || !(std::fabs(tot[d] - t) <= tol))
                        fail("tally/simple-calo", "calorimeter total differs from the sum of delivered deposits",
                             {{"detector", d}, {"calo", d < tot.size() ? tot[d] : -1.0}, {"truth", t}});
                }
            }
            {
                auto got = adiag->calc_actions();
                bool same = got.size() == truth_actions.size();
                for (std::size_t p = 0; same && p < got.size(); ++p)
                    same = got[p] == truth_actions[p];
                if (!same)
                {
                    std::uint64_t tg = 0, tt = 0;
                    for (auto const& v : got)
                        for (auto x : v)
                            tg += x;
                    for (auto const& v : truth_actions)
                        for (auto x : v)
                            tt += x;
                    std::string site = (spec.num_track_slots == 1 && tg == 0 && tt > 0) ? "single-slot-never-runs" : "counts";
                    fail("tally/action-diagnostic/" + site,
                         "action diagnostic differs from the histogram of (particle, post-step action) over "
                         "the steps that happened",
                         {{"diagnostic_total", tg}, {"truth_total", tt}, {"slots", spec.num_track_slots}});
                }
            }
            {
                auto got = sdiag->calc_steps();
                bool same = got.size() == truth_steps.size();
                for (std::size_t p = 0; same && p < got.size(); ++p)
                    same = got[p] == truth_steps[p];
                if (!same)
                    fail("tally/step-diagnostic", "step diagnostic differs from the histogram of steps per killed track",
                         {{"bins", sdiag_bins}});
            }
            if (nviol == 0)
            {
                if (steps_total >= 5)
                    rep.held(selcell);
                else
                    rep.held_trivial();
            }
            else
                rep.inconclusive("case had violations (recorded separately)");
            rep.observe("steps_checked", steps_total);
            rep.observe("steps_delivered", delivered_total);
            if (rep.want_sample(4))
            {
                json s = ctx;
                s["steps"] = steps_total;
                s["delivered"] = delivered_total;
                s["callbacks"] = recs.size() + (calo ? 1 : 0);
                s["have_detectors"] = have_detectors;
                s["nonzero_filter"] = nonzero;
                rep.sample(s, 4);
            }
        }
        catch (RuntimeError const& e)
        {
            rep.inconclusive("rejected input: " + std::string(e.details().condition).substr(0, 80));
        }
        catch (DebugError const& e)
        {
            if (verif::is_bounds_assertion(e))
                rep.violation(verif::bounds_key("C17", e), "bounds assertion: " + verif::describe(e), ctx);
            else
            {
                rep.inconclusive("debug-assert: " + verif::describe(e));
                rep.observe("assert:" + verif::describe(e));
            }
        }
        catch (std::exception const& e)
        {
            bool handled = false;
            try
            {
                std::rethrow_if_nested(e);
            }
            catch (DebugError const& d)
            {
                handled = true;
                if (verif::is_bounds_assertion(d))
                    rep.violation(verif::bounds_key("C17", d), "bounds assertion: " + verif::describe(d), ctx);
                else
                {
                    rep.inconclusive("debug-assert: " + verif::describe(d));
                    rep.observe("assert:" + verif::describe(d));
                }
            }
            catch (...)
            {
            }
            if (!handled)
                rep.inconclusive(std::string("exception: ") + std::string(e.what()).substr(0, 120));
        }
    }
    return rep.finish();
}

}  // namespace vt
