// Canonical per-event step histories (for C06 / C07 / C16 bit-exact comparisons).
// A history is, per (event, track id), the ordered list of step records; its canonical form
// does not depend on slot assignment or visiting order.
#pragma once

#include <map>
#include <string>
#include <vector>

#include "probe.hh"
#include "verif_common.hh"

namespace vt
{
struct StepHist
{
    // all values stored as raw bit patterns / ints so that comparison is bit-exact
    std::vector<std::uint64_t> words;
};

struct TrackHist
{
    int parent = -1, particle = -1;
    std::vector<StepHist> steps;
};

struct EventHist
{
    std::map<int, TrackHist> tracks;  // by track id
    bool had_failure = false;  // a step ended with the physics-failure (out of secondary storage) action
    std::uint64_t hash() const;
    std::size_t num_steps() const;
};

class HistoryRecorder
{
  public:
    // Action ids are translated to a hash of the action label: different builds of the same
    // problem (status checker, sort actions) number their actions differently
    explicit HistoryRecorder(std::vector<std::string> const& action_labels);
    // Append the records of one stepper call
    void add(IterRec const& it);
    std::map<int, EventHist> const& events() const { return events_; }
    void clear() { events_.clear(); }

  private:
    std::uint64_t act(int id) const { return (id >= 0 && id < int(label_hash_.size())) ? label_hash_[id] : ~0ull; }
    std::vector<std::uint64_t> label_hash_;
    int failure_action_ = -1;
    std::map<int, EventHist> events_;
};

// Names of the words in a StepHist (for witnesses)
std::vector<std::string> const& step_word_names();

// First difference between two event histories: returns empty json if identical
verif::json diff_events(EventHist const& a, EventHist const& b);

}  // namespace vt
