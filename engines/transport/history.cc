#include "history.hh"

namespace vt
{
namespace
{
inline std::uint64_t b(double x)
{
    return verif::bits_of(x);
}
inline std::uint64_t bi(long long x)
{
    return static_cast<std::uint64_t>(x);
}
}  // namespace

std::vector<std::string> const& step_word_names()
{
    static std::vector<std::string> const n = {
        "step_index", "status_pre", "status_post", "status_end", "particle", "parent",
        "time_pre", "pos_pre.x", "pos_pre.y", "pos_pre.z", "dir_pre.x", "dir_pre.y", "dir_pre.z",
        "e_pre", "vol_pre", "step_limit", "action_pre", "along_action",
        "e_along", "step_along", "edep_along", "action_along",
        "action_select",
        "time_post", "pos_post.x", "pos_post.y", "pos_post.z", "dir_post.x", "dir_post.y", "dir_post.z",
        "e_post", "vol_post", "step_post", "edep_post", "action_post", "nsteps_post", "num_secondaries"};
    return n;
}

HistoryRecorder::HistoryRecorder(std::vector<std::string> const& action_labels)
{
    for (auto const& l : action_labels)
    {
        std::uint64_t h = 1469598103934665603ull;
        for (unsigned char ch : l)
        {
            h ^= ch;
            h *= 1099511628211ull;
        }
        label_hash_.push_back(h);
        if (l == "physics-failure")
            failure_action_ = int(label_hash_.size()) - 1;
    }
}

void HistoryRecorder::add(IterRec const& it)
{
    for (auto const& r : it.slots)
    {
        if (r.status[P_PRE] == 0 || r.status[P_PRE] == status_unseen)
            continue;
        auto& ev = events_[r.event];
        auto& tr = ev.tracks[r.track];
        tr.parent = r.parent;
        tr.particle = r.particle;
        StepHist s;
        auto& w = s.words;
        w = {bi(r.nsteps_pre), bi(r.status[P_PRE]), bi(r.status[P_POST]), bi(r.status[P_END]), bi(r.particle),
             bi(r.parent), b(r.time_pre), b(r.pos_pre[0]), b(r.pos_pre[1]), b(r.pos_pre[2]), b(r.dir_pre[0]),
             b(r.dir_pre[1]), b(r.dir_pre[2]), b(r.e_pre), bi(r.vol_pre), b(r.step_limit), act(r.action_pre),
             act(r.along_action), b(r.e_along), b(r.step_along), b(r.edep_along), act(r.action_along),
             act(r.action_sel), b(r.time_post), b(r.pos_post[0]), b(r.pos_post[1]), b(r.pos_post[2]),
             b(r.dir_post[0]), b(r.dir_post[1]), b(r.dir_post[2]), b(r.e_post), bi(r.vol_post), b(r.step_post),
             b(r.edep_post), act(r.action_post), bi(r.nsteps_post), bi((long long)r.secs.size())};
        for (auto const& sec : r.secs)
        {
            w.push_back(bi(sec.particle));
            w.push_back(b(sec.energy));
            w.push_back(b(sec.dir[0]));
            w.push_back(b(sec.dir[1]));
            w.push_back(b(sec.dir[2]));
        }
        if (failure_action_ >= 0 && r.action_post == failure_action_)
            ev.had_failure = true;
        tr.steps.push_back(std::move(s));
    }
}

std::uint64_t EventHist::hash() const
{
    std::uint64_t h = 1469598103934665603ull;
    auto mix = [&h](std::uint64_t v) {
        h ^= v;
        h *= 1099511628211ull;
        h ^= h >> 29;
    };
    for (auto const& kv : tracks)
    {
        mix(std::uint64_t(kv.first));
        mix(std::uint64_t(kv.second.steps.size()));
        for (auto const& s : kv.second.steps)
            for (auto w : s.words)
                mix(w);
    }
    return h;
}

std::size_t EventHist::num_steps() const
{
    std::size_t n = 0;
    for (auto const& kv : tracks)
        n += kv.second.steps.size();
    return n;
}

verif::json diff_events(EventHist const& a, EventHist const& c)
{
    using verif::json;
    auto ia = a.tracks.begin();
    auto ic = c.tracks.begin();
    for (; ia != a.tracks.end() && ic != c.tracks.end(); ++ia, ++ic)
    {
        if (ia->first != ic->first)
            return json{{"kind", "track-id-set"}, {"a_track", ia->first}, {"b_track", ic->first}};
        auto const& ta = ia->second;
        auto const& tc = ic->second;
        std::size_t n = std::min(ta.steps.size(), tc.steps.size());
        for (std::size_t s = 0; s < n; ++s)
        {
            auto const& wa = ta.steps[s].words;
            auto const& wc = tc.steps[s].words;
            std::size_t m = std::min(wa.size(), wc.size());
            for (std::size_t k = 0; k < m; ++k)
            {
                if (wa[k] != wc[k])
                {
                    auto const& names = step_word_names();
                    std::string name = k < names.size() ? names[k] : ("secondary-word-" + std::to_string(k - names.size()));
                    double da, dc;
                    std::memcpy(&da, &wa[k], 8);
                    std::memcpy(&dc, &wc[k], 8);
                    return json{{"kind", "field"}, {"track", ia->first}, {"step", s}, {"field", name},
                                {"a_bits", wa[k]}, {"b_bits", wc[k]}, {"a_as_double", da}, {"b_as_double", dc}};
                }
            }
            if (wa.size() != wc.size())
                return json{{"kind", "num-secondaries"}, {"track", ia->first}, {"step", s}};
        }
        if (ta.steps.size() != tc.steps.size())
            return json{{"kind", "num-steps"}, {"track", ia->first}, {"a", ta.steps.size()}, {"b", tc.steps.size()}};
    }
    if (a.tracks.size() != c.tracks.size())
        return json{{"kind", "num-tracks"}, {"a", a.tracks.size()}, {"b", c.tracks.size()}};
    return json();
}

}  // namespace vt
