// Transport problem generator: a ProblemSpec is drawn from a seed (and is fully
// JSON-describable for replays); build_problem() assembles a production CoreParams from it
// with synthetic imported tables (no Geant4), see DESIGN section 3.
#pragma once

#include <functional>
#include <memory>
#include <string>
#include <vector>

#include "corecel/Types.hh"
#include "celeritas/Types.hh"
#include "celeritas/phys/Primary.hh"

#include "verif_common.hh"

namespace celeritas
{
class CoreParams;
class ParticleParams;
class OrangeParams;
using GeoParams = OrangeParams;
}  // namespace celeritas

namespace verif
{
namespace refloc
{
class RefLocator;
}
}  // namespace verif

namespace vt
{
using verif::json;

struct MaterialSpec
{
    std::string name;
    int z = 29;
    double amu = 63.5;
    double number_density = 8.5e22;  // 1/cm^3
    bool gas = false;
};

struct CutSpec
{
    double gamma = 0.01, electron = 0.1, positron = 0.1;  // MeV
};

struct PrimarySpec
{
    int particle = 0;  // index in particle list
    double energy = 1;  // MeV
    double pos[3] = {0, 0, 0};
    double dir[3] = {0, 0, 1};
    double time = 0;
    int event = 0;
};

struct ProblemSpec
{
    std::uint64_t seed = 0;

    // physics family: "synth" (real EM models, synthetic tables) or "branch" (energy
    // conserving mock branching model through the production InteractionApplier)
    std::string family = "synth";

    std::string geometry = "two-boxes";  // stem of test/geocel/data/<stem>.org.json
    std::vector<MaterialSpec> materials;
    std::vector<int> volume_to_mat;  // per geometry volume, -1 = none (exterior)
    std::vector<CutSpec> cuts;  // per material
    bool apply_post_interaction = true;

    // synth process toggles
    bool photoelectric = true;
    double branch_absorb_below = 0.01;  // MeV: branch model absorbs (deposits) below this energy
    bool compton = true, conversion = true, ioni = true, brems = true, annihilation = true;
    bool brems_combined = false, brems_lpm = true, conversion_lpm = true;
    bool msc = true, fluct = true;
    double xs_mod_amp = 0.3;  // amplitude of smooth random modulation of tables
    double xs_scale = 1.0;

    // branch family parameters
    int branch_max_secondaries = 4;
    double branch_kill_prob = 0.3;
    double branch_xs_barn = 5.0;
    double branch_eloss = 0.0;  // MeV cm^2 per atom (x number density)
    bool branch_positrons = true;

    // physics options
    double min_range = 0.1, max_step_over_range = 0.2, fixed_step_limiter = 0;
    double linear_loss_limit = 0.01, lowest_electron_energy = 0.001;
    double secondary_stack_factor = 3;
    bool disable_integral_xs = false;
    int msc_algorithm = 1;  // MscStepLimitAlgorithm

    // along step: "linear" | "uniform" | "rzmap"
    std::string along = "linear";
    double field[3] = {0, 0, 0};  // tesla

    // run configuration
    int num_track_slots = 16;
    int capacity = 4096;
    int max_events = 64;
    int track_order = 0;  // TrackOrder enum value
    bool status_checker = false;
    bool action_times = false;
    int looping_max_steps = 100;  // SimParams looping thresholds
    int looping_max_subthreshold_steps = 10;
    double looping_threshold_energy = 1.0;
    unsigned rng_seed = 12345;

    json to_json() const;
    static ProblemSpec from_json(json const&);
};

// Draw a random problem. `hint` selects sub-families:
//   "" (default mix), "field", "msc", "branch", "tiny-slots", ...
ProblemSpec draw_problem(std::uint64_t seed, std::string const& family, std::string const& hint = "");

struct ProbeSet;  // probe.hh

struct ActionIds
{
    int discrete = -1, range = -1, msc_range = -1, integral_rejected = -1, failure = -1,
        fixed_step = -1, boundary = -1, tracking_cut = -1, propagation_limit = -1,
        along_user = -1, along_neutral = -1;
    int model_begin = -1, model_end = -1;  // [begin,end) action ids of physics models
};

// Everything built from a spec
struct Problem
{
    ProblemSpec spec;
    std::shared_ptr<celeritas::CoreParams> core;
    std::shared_ptr<celeritas::ParticleParams const> particles;
    celeritas::ParticleId gamma, electron, positron;
    std::vector<double> mass;  // MeV per particle id
    std::vector<bool> antiparticle;
    std::vector<double> charge;
    int num_volumes = 0;
    std::vector<std::string> volume_names;
    std::vector<std::string> action_labels;  // by action id
    ActionIds ids;
    bool has_at_rest_positron = false;
    // Reference point locator over the geometry *definition* (lib/ref_locator.hh); null when
    // the input file cannot be read into an OrangeInput
    std::shared_ptr<verif::refloc::RefLocator const> locator;
    std::shared_ptr<ProbeSet> probes;  // registered probe actions (null if none)
    std::uint64_t physics_hash = 0;  // hash of the physics `reals` pool
};

struct BuildOptions
{
    int max_streams = 1;
    bool with_probes = true;
    // invoked after CoreParams exists but before probes are added (collectors etc.)
    std::function<void(Problem&)> customize;
};

// Throws celeritas::RuntimeError when the production constructors reject the input
std::shared_ptr<Problem> build_problem(ProblemSpec const& spec, BuildOptions const& opts);

// Sample primaries for `num_events` events (event ids first_event...) inside the geometry
std::vector<std::vector<celeritas::Primary>>
draw_primaries(Problem const& prob, verif::Rng& rng, int num_events, int first_event, int max_per_event, double emax);

std::string repo_root();

// Cached runtime geometry for a key (bundled stem or "gen:<seed>")
std::shared_ptr<celeritas::GeoParams const> load_geometry(std::string const& key);

// Cached reference locator for the same key (null if unavailable)
std::shared_ptr<verif::refloc::RefLocator const> load_locator(std::string const& stem);

}  // namespace vt
