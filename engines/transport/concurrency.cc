// C07: events transported simultaneously on different streams sharing one CoreParams give the
// per-event results of a serial run on one stream; run under ThreadSanitizer in the tsan
// variant (reports are collected by the driver from the sanitizer log).
#include <atomic>
#include <chrono>
#include <exception>
#include <memory>
#include <mutex>
#include <thread>

#include "corecel/Assert.hh"
#include "corecel/io/Logger.hh"
#include "celeritas/geo/GeoParams.hh"
#include "celeritas/global/CoreParams.hh"
#include "celeritas/global/CoreState.hh"
#include "celeritas/global/Stepper.hh"
#include "celeritas/user/ActionDiagnostic.hh"
#include "celeritas/user/SimpleCalo.hh"
#include "celeritas/user/StepCollector.hh"
#include "celeritas/user/StepDiagnostic.hh"

#include "engine_common.hh"
#include "history.hh"
#include "probe.hh"
#include "problem.hh"
#include "verif_celer.hh"

using namespace celeritas;

namespace vt
{
namespace
{
using HostStepper = Stepper<MemSpace::host>;

struct Scoring
{
    std::shared_ptr<SimpleCalo> calo;
    std::shared_ptr<ActionDiagnostic> actions;
    std::shared_ptr<StepDiagnostic> steps;
};

struct EventWork
{
    int event_id;
    std::uint64_t unique_id;
    std::vector<Primary> prims;
};

// Attach calorimeter + diagnostics to a freshly built problem
Scoring attach_scoring(Problem& prob, int max_streams, verif::Rng& rng)
{
    Scoring sc;
    auto const& geo = *prob.core->geometry();
    std::vector<Label> labels;
    for (int v = 0; v < prob.num_volumes; ++v)
    {
        if (prob.spec.volume_to_mat[v] >= 0 && (labels.empty() || rng.coin(0.5)))
            labels.push_back(geo.id_to_label(VolumeId(v)));
        if (labels.size() >= 4)
            break;
    }
    sc.calo = std::make_shared<SimpleCalo>("verif-calo", labels, geo, max_streams);
    StepCollector::make_and_insert(*prob.core, {sc.calo});
    sc.actions = ActionDiagnostic::make_and_insert(*prob.core);
    sc.steps = StepDiagnostic::make_and_insert(*prob.core, 50);
    return sc;
}

bool run_event(Problem& prob, HostStepper& step, EventWork const& w, HistoryRecorder& rec, std::uint64_t cap)
{
    step.reseed(UniqueEventId{w.unique_id});
    unsigned s = step.state().stream_id().get();
    static char const* const dump = std::getenv("VERIF_C07_DUMP");  // debugging aid: event id
    auto dump_iter = [&](std::uint64_t it) {
        if (!dump || std::atoi(dump) != w.event_id || s != 0)
            return;
        auto const& ir = prob.probes->logs[s].iter;
        std::fprintf(stderr, "DUMP ev%d it%llu alloc=%u:", w.event_id, (unsigned long long)it, ir.alloc_size_end);
        for (std::size_t i = 0; i < ir.slots.size(); ++i)
        {
            auto const& r = ir.slots[i];
            if (r.status[P_PRE] != 0)
                std::fprintf(stderr, " [%zu:t%d a%d s%zu c%d st%d/%d]", i, r.track, r.action_post, r.secs.size(),
                             r.secs_cleared, int(r.status[P_POST]), int(r.status[P_END]));
        }
        std::fprintf(stderr, "\n");
    };
    auto res = step(make_span(w.prims));
    rec.add(prob.probes->logs[s].iter);
    dump_iter(0);
    std::uint64_t it = 1;
    while (res && it < cap)
    {
        res = step();
        rec.add(prob.probes->logs[s].iter);
        dump_iter(it);
        ++it;
    }
    return !res;
}
}  // namespace

int run_c07(verif::Args const& args, verif::Report& rep)
{
    rep.set_rule(
        "A case = one generated problem with N events (each 1-4 primaries). Serial reference: one "
        "stream, the events one after another (reseed per event). Concurrent run: 2-16 std::threads, "
        "each driving its own Stepper/CoreState over ONE shared CoreParams with SimpleCalo (through "
        "StepCollector), ActionDiagnostic and StepDiagnostic attached; steppers constructed inside the "
        "threads (lazy begin_run, as celer-sim) or up front; events assigned round-robin, from a shared "
        "queue, or all to one stream; probe actions inject yields / microsecond sleeps between library "
        "actions. Oracle: per-event canonical history hash equals the serial one; calorimeter totals "
        "equal within summation rounding, action/step diagnostics exactly; in the tsan variant every "
        "ThreadSanitizer report with a celeritas frame is a violation. Cell = threads x construction "
        "mode x assignment mode x family; evidence also counts distinct (stream,probe-point) "
        "interleaving prefixes observed.");
    rep.assume("TSan only sees synchronisation it intercepts and only the code that ran");

    bool const tsan = args.get("variant") == "tsan";
    std::uint64_t ncases = args.budget(tsan ? 6 : 24, tsan ? 30 : 400);
    int repeats = (tsan && args.thorough()) ? 2 : 1;
    std::set<std::uint64_t> interleavings;

    for (std::uint64_t c = 0; c < ncases; ++c)
    {
        if (char const* only = std::getenv("VERIF_ONLY_CASE"))
            if (std::uint64_t(std::atoll(only)) != c)
                continue;
        std::uint64_t cseed = verif::mix_seed(args.seed, c * 15485863 + 11);
        verif::Rng rng(cseed);
        std::string family = rng.coin(0.3) ? "branch" : "synth";
        ProblemSpec spec = draw_problem(cseed, family, rng.coin(0.25) ? "field" : "");
        spec.num_track_slots = std::min(spec.num_track_slots, 32);
        // the debug status checker keeps per-stream aux state behind one shared params object;
        // its ordering rule rejects the branch family's action layout, so only with synth
        if (family != "synth")
            spec.status_checker = false;
        int nthreads = rng.pick(std::vector<int>{2, 2, 3, 4, 4, 8, 16});
        int nevents = std::min<int>(spec.max_events, nthreads * int(rng.integer(1, 3)));
        double emax = rng.pick(std::vector<double>{3, 10, 30});
        // 0: steppers built up front; 1: built inside the threads right after a common barrier;
        // 2: built inside the threads, staggered (thread k builds its stepper only after thread
        //    k-1 finished its first event -- celer-sim's lazy per-thread transporter)
        int construct_mode = int(rng.integer(0, 2));
        bool construct_in_thread = construct_mode != 0;
        int assign = int(rng.integer(0, 2));  // 0 round robin, 1 dynamic queue, 2 all-to-one
        bool debug_logging = rng.coin(0.15);
        json ctx = {{"case", c}, {"seed", cseed}, {"problem", spec.to_json()}, {"threads", nthreads},
                    {"events", nevents}, {"construct_mode", construct_mode}, {"assignment", assign}};
        std::string const cell = "t" + std::to_string(nthreads) + (construct_mode == 0 ? "/upfront" : construct_mode == 1 ? "/lazy" : "/lazy-staggered")
                                 + "/assign" + std::to_string(assign) + "/" + family + "/" + spec.along;

        try
        {
            //// serial reference ////
            BuildOptions bo;
            bo.max_streams = 1;
            Scoring ssc;
            verif::Rng labels_rng(cseed + 1);
            bo.customize = [&](Problem& p) { ssc = attach_scoring(p, 1, labels_rng); };
            auto sprob = build_problem(spec, bo);
            std::vector<EventWork> work;
            {
                verif::Rng pr(cseed + 2);
                for (int e = 0; e < nevents; ++e)
                {
                    auto pp = draw_primaries(*sprob, pr, 1, e, 4, emax);
                    if (pp.empty() || pp[0].empty())
                        continue;
                    work.push_back({e, std::uint64_t(pr.integer(0, 1 << 20)), pp[0]});
                }
            }
            if (work.size() < 2)
            {
                rep.inconclusive("too few events placed");
                continue;
            }
            std::map<int, std::uint64_t> serial_hash;
            std::map<int, std::size_t> serial_steps;
            std::map<int, EventHist> serial_hist;
            bool capped = false;
            {
                StepperInput si;
                si.params = sprob->core;
                si.stream_id = StreamId{0};
                si.num_track_slots = spec.num_track_slots;
                HostStepper step(si);
                HistoryRecorder rec(sprob->action_labels);
                bool const fresh_each = std::getenv("VERIF_C07_SERIAL_FRESH") != nullptr;  // debugging aid
                for (auto const& w : work)
                {
                    if (fresh_each)
                    {
                        HostStepper fresh(si);
                        capped = capped || !run_event(*sprob, fresh, w, rec, 100000);
                    }
                    else
                        capped = capped || !run_event(*sprob, step, w, rec, 100000);
                }
                for (auto const& kv : rec.events())
                {
                    serial_hash[kv.first] = kv.second.hash();
                    serial_steps[kv.first] = kv.second.num_steps();
                    serial_hist[kv.first] = kv.second;
                }
            }
            if (capped)
            {
                rep.inconclusive("iteration cap in serial run");
                continue;
            }
            auto serial_calo = ssc.calo->calc_total_energy_deposition();
            auto serial_actions = ssc.actions->calc_actions();
            auto serial_steps_diag = ssc.steps->calc_steps();

            for (int repeat = 0; repeat < repeats; ++repeat)
            {
                //// concurrent run ////
                BuildOptions cbo;
                cbo.max_streams = nthreads;
                Scoring csc;
                verif::Rng labels_rng2(cseed + 1);
                cbo.customize = [&](Problem& p) { csc = attach_scoring(p, nthreads, labels_rng2); };
                auto cprob = build_problem(spec, cbo);

                // schedule perturbation + interleaving log at the probe points
                std::vector<std::atomic<std::uint32_t>> ilog(4096);
                std::atomic<std::uint32_t> ipos{0};
                std::uint64_t pseed = verif::mix_seed(cseed, 77 + repeat);
                cprob->probes->perturb = [&ilog, &ipos, pseed](unsigned stream, int point) {
                    std::uint32_t k = ipos.fetch_add(1, std::memory_order_relaxed);
                    if (k < ilog.size())
                        ilog[k].store((stream << 8) | unsigned(point), std::memory_order_relaxed);
                    thread_local verif::SplitMix64 g(pseed + 0x9e37 * (stream + 1));
                    std::uint64_t r = g.next();
                    if ((r & 7) == 0)
                        std::this_thread::yield();
                    else if ((r & 63) == 1)
                        std::this_thread::sleep_for(std::chrono::microseconds(1 + (r >> 8) % 50));
                };

                LogLevel old_level = self_logger().level();
                if (debug_logging)
                    self_logger().level(LogLevel::debug);

                std::vector<std::unique_ptr<HostStepper>> steppers(nthreads);
                auto make_stepper = [&](int t) {
                    StepperInput si;
                    si.params = cprob->core;
                    si.stream_id = StreamId(t);
                    si.num_track_slots = spec.num_track_slots;
                    steppers[t] = std::make_unique<HostStepper>(si);
                };
                if (!construct_in_thread)
                    for (int t = 0; t < nthreads; ++t)
                        make_stepper(t);

                std::atomic<int> next{0};
                std::atomic<int> ready{0};
                std::vector<std::atomic<int>> first_done(nthreads);
                for (auto& fd : first_done)
                    fd.store(0);
                std::vector<std::map<int, std::uint64_t>> thash(nthreads);
                std::vector<std::map<int, EventHist>> thist(nthreads);
                std::vector<std::string> terror(nthreads);
                std::vector<int> tcapped(nthreads, 0);
                auto worker = [&](int t) {
                    try
                    {
                        // start barrier with skew so that begin_run of several streams overlaps
                        ready.fetch_add(1);
                        while (ready.load() < nthreads)
                            std::this_thread::yield();
                        if (construct_mode == 2 && t > 0)
                            while (first_done[t - 1].load() == 0)
                                std::this_thread::yield();
                        if (construct_in_thread)
                            make_stepper(t);
                        HistoryRecorder rec(cprob->action_labels);
                        auto do_event = [&](EventWork const& w) {
                            if (!run_event(*cprob, *steppers[t], w, rec, 100000))
                                tcapped[t] = 1;
                            first_done[t].store(1);
                        };
                        if (assign == 0)
                        {
                            for (std::size_t i = t; i < work.size(); i += nthreads)
                                do_event(work[i]);
                        }
                        else if (assign == 1)
                        {
                            for (int i = next.fetch_add(1); i < int(work.size()); i = next.fetch_add(1))
                                do_event(work[i]);
                        }
                        else
                        {
                            if (t == nthreads - 1)
                                for (auto const& w : work)
                                    do_event(w);
                        }
                        first_done[t].store(1);
                        for (auto const& kv : rec.events())
                        {
                            thash[t][kv.first] = kv.second.hash();
                            thist[t][kv.first] = kv.second;
                        }
                    }
                    catch (std::exception const& e)
                    {
                        first_done[t].store(1);
                        terror[t] = e.what();
                    }
                };
                std::vector<std::thread> threads;
                for (int t = 0; t < nthreads; ++t)
                    threads.emplace_back(worker, t);
                for (auto& th : threads)
                    th.join();
                self_logger().level(old_level);

                bool any_error = false, any_capped = false;
                for (int t = 0; t < nthreads; ++t)
                {
                    if (!terror[t].empty())
                    {
                        any_error = true;
                        json w = ctx;
                        w["thread"] = t;
                        w["what"] = terror[t].substr(0, 500);
                        rep.violation("C07/exception-in-stream", "a stream threw while running concurrently although "
                                                                 "the serial run completed",
                                      w);
                    }
                    any_capped = any_capped || tcapped[t];
                }
                if (any_error)
                    continue;
                if (any_capped)
                {
                    rep.violation("C07/history-mismatch/did-not-drain",
                                  "an event drained serially but hit the iteration cap when run concurrently", ctx);
                    continue;
                }
                // per-event comparison
                std::map<int, std::uint64_t> chash;
                for (auto const& m : thash)
                    for (auto const& kv : m)
                        chash[kv.first] = kv.second;
                bool ok = true;
                for (auto const& kv : serial_hash)
                {
                    auto itc = chash.find(kv.first);
                    if (itc == chash.end() || itc->second != kv.second)
                    {
                        ok = false;
                        json w = ctx;
                        w["event"] = kv.first;
                        w["serial_hash"] = kv.second;
                        w["concurrent_hash"] = itc == chash.end() ? 0 : itc->second;
                        for (auto const& th : thist)
                        {
                            auto ith = th.find(kv.first);
                            if (ith != th.end())
                            {
                                w["first_difference"] = diff_events(serial_hist[kv.first], ith->second);
                                w["secondary_buffer_exhausted"]
                                    = serial_hist[kv.first].had_failure || ith->second.had_failure;
                            }
                        }
                        if (w.value("secondary_buffer_exhausted", false))
                            // order dependence under secondary-buffer exhaustion (see C06's known
                            // finding): a re-indexing order leaves a different slot permutation
                            // behind after earlier events on the serial stream
                            rep.violation("C07/history-mismatch/secondary-buffer-exhausted",
                                          "the secondary buffer ran out during the event; its history depends "
                                          "on the slot visiting order left behind by earlier events",
                                          w);
                        else
                            rep.violation("C07/history-mismatch/event",
                                          "per-event step history under concurrency differs from the serial run", w);
                        break;
                    }
                }
                // tallies
                auto ccalo = csc.calo->calc_total_energy_deposition();
                for (std::size_t d = 0; d < serial_calo.size() && ok; ++d)
                {
                    // the same positive terms summed in a different order (per stream, then over
                    // streams): |difference| <= 2 eps N sum for N terms
                    std::size_t nterms = 16;
                    for (auto const& kv : serial_steps)
                        nterms += kv.second;
                    double tol = 2 * 2.220446049250313e-16 * double(nterms) * std::fabs(serial_calo[d]) + 1e-300;
                    if (d >= ccalo.size() || !(std::fabs(ccalo[d] - serial_calo[d]) <= tol))
                    {
                        ok = false;
                        json w = ctx;
                        w["detector"] = d;
                        w["serial"] = serial_calo[d];
                        w["concurrent"] = d < ccalo.size() ? ccalo[d] : -1.0;
                        rep.violation("C07/tally-mismatch/simple-calo",
                                      "calorimeter total differs between concurrent and serial execution", w);
                    }
                }
                if (ok && csc.actions->calc_actions() != serial_actions)
                {
                    ok = false;
                    rep.violation("C07/tally-mismatch/action-diagnostic",
                                  "action diagnostic counts differ between concurrent and serial execution", ctx);
                }
                if (ok && csc.steps->calc_steps() != serial_steps_diag)
                {
                    ok = false;
                    rep.violation("C07/tally-mismatch/step-diagnostic",
                                  "step diagnostic counts differ between concurrent and serial execution", ctx);
                }
                // interleaving statistics
                {
                    std::uint32_t nlog = std::min<std::uint32_t>(ipos.load(), ilog.size());
                    std::uint64_t h = 1469598103934665603ull;
                    std::uint64_t switches = 0;
                    for (std::uint32_t k = 0; k < nlog; ++k)
                    {
                        std::uint32_t v = ilog[k].load();
                        h = (h ^ v) * 1099511628211ull;
                        if (k && (v >> 8) != (ilog[k - 1].load() >> 8))
                            ++switches;
                        if (k == 255)
                            interleavings.insert(h);
                    }
                    interleavings.insert(h);
                    rep.observe("stream_switches_at_probe_points", switches);
                    rep.observe("probe_events_logged", nlog);
                }
                if (ok)
                {
                    std::size_t nsteps = 0;
                    for (auto const& kv : serial_steps)
                        nsteps += kv.second;
                    if (nsteps >= 10)
                        rep.held(cell);
                    else
                        rep.held_trivial();
                    rep.observe("events_compared", serial_hash.size());
                    rep.observe("steps_compared", nsteps);
                }
                if (rep.want_sample(4))
                {
                    json s = ctx;
                    s["serial_event_hashes"] = serial_hash;
                    s["calo_totals"] = serial_calo;
                    rep.sample(s, 4);
                }
            }
        }
        catch (RuntimeError const& e)
        {
            rep.inconclusive("rejected input / RuntimeError in serial phase: "
                             + std::string(e.details().condition).substr(0, 80));
        }
        catch (DebugError const& e)
        {
            rep.inconclusive("debug-assert: " + verif::describe(e));
        }
        catch (std::exception const& e)
        {
            rep.inconclusive(std::string("exception in serial phase: ") + std::string(e.what()).substr(0, 100));
        }
    }
    rep.note("distinct_interleaving_prefixes", interleavings.size());
    rep.observe("distinct_interleaving_prefixes", interleavings.size());
    return rep.finish();
}

}  // namespace vt
