// Geometry inputs for the transport problems: bundled .org.json files and generated nested
// geometries ("gen:<seed>", built through the orangeinp API by the geo engine's generator).
// One OrangeInput per key is cached per process; the runtime geometry (GeoParams) and the
// reference locator (lib/ref_locator.hh) are both built from that same definition.
#include <fstream>
#include <map>
#include <memory>
#include <mutex>
#include <variant>
#include <vector>

#include "orange/OrangeInput.hh"
#include "orange/OrangeParams.hh"
#include "celeritas/geo/GeoParams.hh"

#include "geo_workload.hh"
#include "problem.hh"
#include "ref_locator.hh"

namespace vt
{
namespace
{
struct Entry
{
    std::shared_ptr<celeritas::GeoParams const> geo;
    std::shared_ptr<verif::refloc::RefLocator const> locator;
};

// A unit that lists the same surface twice (lead-box.org.json: the box and the world share
// all six planes, so the "world" is an empty point set) is not a valid definition for a
// point-location oracle: the side of the shared planes a point is on does not decide its
// volume. The C05 volume monitor then falls back to the material map alone.
bool has_duplicate_surfaces(celeritas::OrangeInput const& inp)
{
    for (auto const& uni : inp.universes)
    {
        auto const* u = std::get_if<celeritas::UnitInput>(&uni);
        if (!u)
            continue;
        std::vector<std::pair<std::size_t, std::vector<double>>> sd;
        for (auto const& s : u->surfaces)
        {
            std::vector<double> data;
            std::visit([&data](auto const& ss) { for (auto v : ss.data()) data.push_back(v); }, s);
            sd.emplace_back(s.index(), std::move(data));
        }
        for (std::size_t i = 0; i < sd.size(); ++i)
            for (std::size_t j = i + 1; j < sd.size(); ++j)
                if (sd[i] == sd[j])
                    return true;
    }
    return false;
}

Entry const& load_entry(std::string const& key)
{
    static std::map<std::string, Entry> cache;
    static std::mutex mu;
    std::lock_guard<std::mutex> lock(mu);
    auto it = cache.find(key);
    if (it != cache.end())
        return it->second;
    Entry e;
    if (key.rfind("gen:", 0) == 0)
    {
        std::uint64_t seed = std::strtoull(key.c_str() + 4, nullptr, 10);
        verif::Rng rng(verif::mix_seed(seed, 0x6e0));
        geo_workload::GenStats st;
        celeritas::OrangeInput inp = geo_workload::generate_orangeinp(rng, st);
        try
        {
            e.locator = std::make_shared<verif::refloc::RefLocator>(inp);
        }
        catch (std::exception const&)
        {
            e.locator = nullptr;
        }
        e.geo = std::make_shared<celeritas::GeoParams>(std::move(inp));
    }
    else
    {
        std::string path = repo_root() + "/test/geocel/data/" + key + ".org.json";
        e.geo = std::make_shared<celeritas::GeoParams>(path);
        try
        {
            std::ifstream in(path);
            celeritas::OrangeInput inp;
            in >> inp;
            if (!has_duplicate_surfaces(inp))
                e.locator = std::make_shared<verif::refloc::RefLocator>(inp);
        }
        catch (std::exception const&)
        {
            e.locator = nullptr;
        }
    }
    return cache.emplace(key, std::move(e)).first->second;
}
}  // namespace

std::shared_ptr<celeritas::GeoParams const> load_geometry(std::string const& key)
{
    return load_entry(key).geo;
}

std::shared_ptr<verif::refloc::RefLocator const> load_locator(std::string const& key)
{
    return load_entry(key).locator;
}
}  // namespace vt
