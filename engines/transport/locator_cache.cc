// Reference locators for the bundled geometries (one per file, cached per process).
#include <fstream>
#include <map>
#include <memory>
#include <mutex>

#include "orange/OrangeInput.hh"
#include "orange/OrangeInputIO.json.hh"

#include "problem.hh"
#include "ref_locator.hh"

namespace vt
{
std::shared_ptr<verif::refloc::RefLocator const> load_locator(std::string const& stem)
{
    static std::map<std::string, std::shared_ptr<verif::refloc::RefLocator const>> cache;
    static std::mutex mu;
    std::lock_guard<std::mutex> lock(mu);
    auto it = cache.find(stem);
    if (it != cache.end())
        return it->second;
    std::shared_ptr<verif::refloc::RefLocator const> result;
    try
    {
        std::ifstream in(repo_root() + "/test/geocel/data/" + stem + ".org.json");
        if (in)
        {
            celeritas::OrangeInput inp;
            in >> inp;
            result = std::make_shared<verif::refloc::RefLocator>(inp);
        }
    }
    catch (std::exception const&)
    {
        result = nullptr;
    }
    cache[stem] = result;
    return result;
}
}  // namespace vt
