// C16: (A) a too-small secondary buffer: affected tracks stay alive, unchanged, interact again,
// nothing partially emitted, event completes with exact energy balance; (B) initializer /
// primary capacity exceeded: stepping stops with a reported error before any out-of-bounds
// access, and after reset later events run correctly.  Faults are enumerated: capacities are
// chosen from the demand profile recorded in an ample-storage run of the same problem.
#include <exception>
#include <memory>
#include <set>

#include "corecel/Assert.hh"
#include "celeritas/global/CoreParams.hh"
#include "celeritas/global/CoreState.hh"
#include "celeritas/global/Stepper.hh"

#include "engine_common.hh"
#include "history.hh"
#include "monitors.hh"
#include "probe.hh"
#include "problem.hh"
#include "verif_celer.hh"

using namespace celeritas;

namespace vt
{
namespace
{
using HostStepper = Stepper<MemSpace::host>;

struct Profile
{
    std::vector<unsigned> sec_demand;  // secondary stack size at the end of each iteration
    std::vector<unsigned> queue;  // num_initializers after each iteration
    unsigned max_sec = 0, max_queue = 0;
    bool drained = false;
};

struct Outcome
{
    bool drained = false, threw = false, capped = false;
    std::string what;
    std::uint64_t iterations = 0;
    std::uint64_t first_failure_iter = 0;
};

// Run all primaries of `prims` (single call) to completion with a monitor attached
Outcome run_monitored(Problem& prob, ProblemSpec const& spec, std::vector<Primary> const& prims,
                      StateMonitor* mon, Profile* profile, std::uint64_t cap, HostStepper* reuse = nullptr,
                      HistoryRecorder* rec = nullptr)
{
    Outcome out;
    std::unique_ptr<HostStepper> own;
    HostStepper* step = reuse;
    if (!step)
    {
        StepperInput si;
        si.params = prob.core;
        si.stream_id = StreamId{0};
        si.num_track_slots = spec.num_track_slots;
        own = std::make_unique<HostStepper>(si);
        step = own.get();
        step->reseed(UniqueEventId{spec.seed % 100000});
    }
    try
    {
        if (mon)
            mon->add_primaries(make_span(prims));
        auto res = (*step)(make_span(prims));
        auto note = [&](StepperResult const& r, std::size_t nprim) {
            auto const& it = prob.probes->logs[0].iter;
            if (mon)
            {
                std::uint64_t before = mon->failures_seen();
                mon->on_iteration(it, r, step->state().counters(), step->state_ref(), nprim);
                if (!out.first_failure_iter && mon->failures_seen() > before)
                    out.first_failure_iter = out.iterations + 1;
            }
            if (rec)
                rec->add(it);
            if (profile)
            {
                profile->sec_demand.push_back(it.alloc_size_end);
                profile->queue.push_back(step->state().counters().num_initializers);
                profile->max_sec = std::max(profile->max_sec, it.alloc_size_end);
                profile->max_queue = std::max<unsigned>(profile->max_queue, step->state().counters().num_initializers);
            }
            ++out.iterations;
        };
        note(res, prims.size());
        while (res && out.iterations < cap && !(mon && mon->fatal()))
        {
            res = (*step)();
            note(res, 0);
        }
        out.drained = !res;
        out.capped = !out.drained;
        if (out.drained && mon)
            mon->on_drained();
        if (profile)
            profile->drained = out.drained;
    }
    catch (RuntimeError const& e)
    {
        out.threw = true;
        out.what = e.what();
    }
    return out;
}
}  // namespace

int run_c16(verif::Args const& args, verif::Report& rep)
{
    rep.set_rule(
        "A case = one generated problem + one fault. First the problem runs with ample storage and the "
        "per-iteration demand profile (secondary-stack size, initializer queue depth) is recorded. "
        "(A) secondary starvation: the run is repeated with the secondary capacity set to each distinct "
        "value from the largest single-interaction demand up to max-demand-1 (all values up to 16, then "
        "sampled), so the first failure lands on every demanding iteration; the C01 ledgers, the C02 "
        "population model and the failed-interaction monitor (track alive, position/direction/energy "
        "equal to the post-along-step values, no secondaries, no deposit from the failed interaction, "
        "stack size <= capacity) judge the run, which must drain. (B) initializer overflow: capacity set "
        "below the recorded maximum queue depth; the stepper must throw RuntimeError (no crash, no "
        "silent overflow: ASan + checked Collection access in the asan variant), then reset_state() + "
        "reseed and a small event must reproduce its fresh-state history bit for bit. Cell = resource x "
        "first-failure iteration bucket x family x failing model.");
    rep.assume("secondary capacity >= the largest demand of a single interaction (otherwise no progress "
               "is possible by construction; such capacities are not generated)");

    std::uint64_t ncases = args.budget(40, 800);
    for (std::uint64_t c = 0; c < ncases; ++c)
    {
        std::uint64_t cseed = verif::mix_seed(args.seed, c * 49979687 + 29);
        verif::Rng rng(cseed);
        std::string family = rng.coin(0.5) ? "branch" : "synth";
        ProblemSpec spec = draw_problem(cseed, family, rng.coin(0.2) ? "field" : "");
        spec.num_track_slots = rng.pick(std::vector<int>{2, 4, 8, 16, 32});
        spec.secondary_stack_factor = 16;
        spec.status_checker = false;
        double emax = rng.pick(std::vector<double>{10, 30, 100});
        json ctx = {{"case", c}, {"seed", cseed}, {"problem", spec.to_json()}};
        std::uint64_t const cap_iters = args.thorough() ? 600000 : 200000;

        try
        {
            auto prob0 = build_problem(spec, BuildOptions{});
            int nev = int(rng.integer(1, 3));
            auto evs = draw_primaries(*prob0, rng, nev, 0, 6, emax);
            std::vector<Primary> prims;
            for (auto& e : evs)
                prims.insert(prims.end(), e.begin(), e.end());
            if (prims.empty())
            {
                rep.inconclusive("no primaries placed");
                continue;
            }
            // ample run: demand profile
            Profile prof;
            {
                MonitorOptions mo;
                mo.report_prefix = "C16";
                StateMonitor mon(*prob0, rep, mo, ctx);
                auto o = run_monitored(*prob0, spec, prims, &mon, &prof, cap_iters);
                if (!o.drained)
                {
                    rep.inconclusive(o.threw ? "ample run threw" : "ample run hit the iteration cap");
                    continue;
                }
            }
            unsigned single_max = family == "branch" ? std::max(1, spec.branch_max_secondaries) : 2;

            //// (A) secondary starvation ////
            if (prof.max_sec > single_max)
            {
                std::vector<unsigned> caps;
                for (unsigned v = single_max; v < prof.max_sec; ++v)
                    caps.push_back(v);
                if (caps.size() > 16)
                {
                    std::vector<unsigned> keep(caps.begin(), caps.begin() + 8);
                    for (int k = 0; k < 8; ++k)
                        keep.push_back(caps[std::size_t(rng.integer(8, long(caps.size()) - 1))]);
                    caps = keep;
                }
                if (!args.thorough() && caps.size() > 6)
                    caps.resize(6);
                for (unsigned capv : caps)
                {
                    ProblemSpec s2 = spec;
                    s2.secondary_stack_factor = (capv + 0.5) / spec.num_track_slots;
                    json vctx = ctx;
                    vctx["secondary_capacity"] = capv;
                    vctx["ample_max_demand"] = prof.max_sec;
                    auto prob = build_problem(s2, BuildOptions{});
                    MonitorOptions mo;
                    mo.report_prefix = "C16";
                    mo.c16 = true;
                    StateMonitor mon(*prob, rep, mo, vctx);
                    auto o = run_monitored(*prob, s2, prims, &mon, nullptr, cap_iters * 4);
                    rep.observe("starved_runs");
                    rep.observe("failed_interactions", mon.failures_seen());
                    if (o.threw)
                    {
                        rep.violation("C16/secondary-starvation/stepper-threw",
                                      "stepping threw under secondary-buffer starvation: " + o.what.substr(0, 200),
                                      vctx);
                        continue;
                    }
                    if (!o.drained)
                    {
                        if (mon.violations() == 0)
                            rep.inconclusive("starved run hit the iteration cap");
                        continue;
                    }
                    if (mon.violations() > 0)
                    {
                        rep.inconclusive("case had violations (recorded separately)");
                        continue;
                    }
                    if (mon.failures_seen() == 0)
                    {
                        rep.held_trivial();
                        continue;
                    }
                    std::string bucket = o.first_failure_iter <= 1   ? "iter1"
                                         : o.first_failure_iter <= 5 ? "iter2-5"
                                         : o.first_failure_iter <= 50 ? "iter6-50"
                                                                      : "iter50+";
                    rep.held("secondary/" + bucket + "/" + family);
                    for (auto const& cl : mon.cells())
                        if (cl.rfind("C16/", 0) == 0)
                            rep.cell(cl.substr(4));
                }
            }
            else
            {
                rep.observe("no-starvation-possible");
            }

            //// (B) initializer / primary capacity overflow ////
            if (prof.max_queue >= 2)
            {
                // a small event that must run after the reset
                verif::Rng tr(cseed + 9);
                auto tev = draw_primaries(*prob0, tr, 1, 5, 1, 1.0);
                std::vector<unsigned> caps = {1, prof.max_queue - 1, unsigned(rng.integer(1, prof.max_queue - 1))};
                if (prims.size() > 1)
                    caps.push_back(unsigned(prims.size()) - 1);  // overflow at primary insertion
                std::set<unsigned> uniq(caps.begin(), caps.end());
                for (unsigned capv : uniq)
                {
                    ProblemSpec s3 = spec;
                    s3.capacity = int(capv);
                    json vctx = ctx;
                    vctx["initializer_capacity"] = capv;
                    vctx["ample_max_queue"] = prof.max_queue;
                    auto prob = build_problem(s3, BuildOptions{});
                    StepperInput si;
                    si.params = prob->core;
                    si.stream_id = StreamId{0};
                    si.num_track_slots = s3.num_track_slots;
                    HostStepper step(si);
                    step.reseed(UniqueEventId{s3.seed % 100000});
                    MonitorOptions mo;
                    mo.report_prefix = "C16";
                    mo.c16 = true;
                    StateMonitor mon(*prob, rep, mo, vctx);
                    auto o = run_monitored(*prob, s3, prims, &mon, nullptr, cap_iters, &step);
                    rep.observe("overflow_runs");
                    bool overflowed_silently = false;
                    if (!o.threw)
                    {
                        // No error: then the queue must never have exceeded the capacity
                        overflowed_silently = step.state().counters().num_initializers > capv;
                        if (o.drained && !overflowed_silently)
                        {
                            // demand profile differs (different storage => different in-place use): fine
                            rep.held_trivial();
                            continue;
                        }
                        if (overflowed_silently)
                        {
                            rep.violation("C16/initializer-overflow/not-reported",
                                          "the initializer count exceeds the configured capacity without an error",
                                          vctx);
                            continue;
                        }
                        rep.inconclusive("overflow run hit the iteration cap");
                        continue;
                    }
                    if (o.what.find("capacity") == std::string::npos)
                    {
                        vctx["what"] = o.what.substr(0, 300);
                        rep.violation("C16/initializer-overflow/wrong-error",
                                      "stepping threw, but not the capacity error", vctx);
                        continue;
                    }
                    if (mon.violations() > 0)
                    {
                        rep.inconclusive("case had violations (recorded separately)");
                        continue;
                    }
                    // recovery: reset, reseed, run a small event; compare with a fresh state
                    bool recovered_ok = true;
                    if (!tev.empty() && !tev[0].empty())
                    {
                        step.reset_state();
                        mon.on_reset();
                        step.reseed(UniqueEventId{4242});
                        HistoryRecorder rec(prob->action_labels);
                        StateMonitor mon2(*prob, rep, mo, vctx);
                        auto o2 = run_monitored(*prob, s3, tev[0], &mon2, nullptr, cap_iters, &step, &rec);
                        // fresh-state reference
                        auto probf = build_problem(s3, BuildOptions{});
                        StepperInput sif;
                        sif.params = probf->core;
                        sif.stream_id = StreamId{0};
                        sif.num_track_slots = s3.num_track_slots;
                        HostStepper fresh(sif);
                        fresh.reseed(UniqueEventId{4242});
                        HistoryRecorder recf(probf->action_labels);
                        auto of = run_monitored(*probf, s3, tev[0], nullptr, nullptr, cap_iters, &fresh, &recf);
                        if (of.threw || !of.drained)
                        {
                            rep.observe("recovery-event-does-not-fit");
                        }
                        else if (o2.threw || !o2.drained)
                        {
                            recovered_ok = false;
                            vctx["what"] = o2.what.substr(0, 300);
                            rep.violation("C16/recovery/event-after-reset-failed",
                                          "after the capacity error and reset_state() an event that runs on a "
                                          "fresh state did not complete",
                                          vctx);
                        }
                        else
                        {
                            auto a = recf.events().begin();
                            auto bq = rec.events().begin();
                            if (a == recf.events().end() || bq == rec.events().end()
                                || a->second.hash() != bq->second.hash())
                            {
                                recovered_ok = false;
                                if (a != recf.events().end() && bq != rec.events().end())
                                    vctx["first_difference"] = diff_events(a->second, bq->second);
                                rep.violation("C16/recovery/history-differs",
                                              "after the capacity error and reset_state() an event differs from "
                                              "its fresh-state history",
                                              vctx);
                            }
                        }
                    }
                    if (recovered_ok)
                    {
                        std::string bucket = o.iterations == 0   ? "at-primary-insert"
                                             : o.iterations <= 5 ? "iter1-5"
                                             : o.iterations <= 50 ? "iter6-50"
                                                                  : "iter50+";
                        rep.held("initializers/" + bucket + "/" + family);
                    }
                }
            }
            if (rep.want_sample(4))
            {
                json s = ctx;
                s["ample_max_secondary_demand"] = prof.max_sec;
                s["ample_max_queue"] = prof.max_queue;
                s["iterations"] = prof.queue.size();
                rep.sample(s, 4);
            }
        }
        catch (RuntimeError const& e)
        {
            rep.inconclusive("rejected input: " + std::string(e.details().condition).substr(0, 80));
        }
        catch (DebugError const& e)
        {
            if (verif::is_bounds_assertion(e))
                rep.violation(verif::bounds_key("C16", e), "bounds assertion: " + verif::describe(e), ctx);
            else
            {
                rep.inconclusive("debug-assert: " + verif::describe(e));
                rep.observe("assert:" + verif::describe(e));
            }
        }
        catch (std::exception const& e)
        {
            bool handled = false;
            try
            {
                std::rethrow_if_nested(e);
            }
            catch (DebugError const& d)
            {
                handled = true;
                if (verif::is_bounds_assertion(d))
                    rep.violation(verif::bounds_key("C16", d), "bounds assertion: " + verif::describe(d), ctx);
                else
                {
                    rep.inconclusive("debug-assert: " + verif::describe(d));
                    rep.observe("assert:" + verif::describe(d));
                }
            }
            catch (...)
            {
            }
            if (!handled)
                rep.inconclusive(std::string("exception: ") + std::string(e.what()).substr(0, 120));
        }
    }
    return rep.finish();
}

}  // namespace vt
