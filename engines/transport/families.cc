// Workload definitions (which problems are generated for which property)
#include "engine_common.hh"

namespace vt
{
//---------------------------------------------------------------------------//
int run_ledger_family(verif::Args const& args, verif::Report& rep)
{
    std::string const prop = args.property;
    rep.set_rule(
        "A case is one generated transport problem (geometry from the bundled .org.json files, 1-4 "
        "random materials, synthetic EM tables through the production Process/Model/PhysicsParams "
        "classes ['synth'] or an energy-conserving branching model with 0-6 secondaries ['branch'], "
        "random physics options/cuts/along-step variant/track-slot count/track order/primaries, 1-4 "
        "events in flight, optional second batch of primaries inserted mid-flight) transported to "
        "completion under probes at six action orders. The oracle runs online on every step of every "
        "track. A coverage cell is (post-step action x particle x along-step variant x ledger branch) "
        "for C01, (birth kind / emission pattern / iteration pattern x track order) for C02 and "
        "(limiting action x along-step variant x charge x volume change) for C05; a case is non-trivial "
        "if at least one step was monitored and one cell was hit.");
    rep.assume("A(p,T) = T + 2mc^2 for antiparticles, else T (the convention of the property statement)");
    rep.assume("synthetic tables satisfy the documented preconditions of the import classes; Seltzer-Berger "
               "data for Z=29 is served relabelled for every element");

    std::uint64_t ncases = 0;
    if (prop == "C01")
        ncases = args.budget(600, 8000);
    else if (prop == "C02")
        ncases = args.budget(800, 10000);
    else
        ncases = args.budget(600, 8000);

    for (std::uint64_t c = 0; c < ncases; ++c)
    {
        std::uint64_t cseed = verif::mix_seed(args.seed, c * 7919 + 17);
        verif::Rng pick(cseed);
        std::string family = "synth";
        std::string hint;
        if (prop == "C02")
            family = pick.coin(0.65) ? "branch" : "synth";
        else
            family = pick.coin(0.2) ? "branch" : "synth";
        double h = pick.uniform();
        if (h < 0.2)
            hint = "field";
        else if (h < 0.4)
            hint = "tiny-slots";
        else if (h < 0.46 && prop == "C01" && family == "synth")
            hint = "integral-off";  // dedicated family: integral approach disabled (known finding)
        ProblemSpec spec = draw_problem(cseed, family, hint);

        RunOptions ro;
        ro.max_events_in_flight = 4;
        ro.max_primaries = prop == "C02" ? 12 : 6;
        // keep cascades bounded: few slots => small energies
        std::vector<double> emaxs = {3, 10, 30, 100, 1000};
        ro.emax = pick.pick(emaxs);
        if (args.thorough() && pick.coin(0.05))
            ro.emax = 1e4;
        if (spec.num_track_slots <= 4)
            ro.emax = std::min(ro.emax, 30.0);
        if (family == "branch")
            ro.emax = std::min(ro.emax, 100.0);
        ro.iteration_cap = args.thorough() ? 2000000 : 300000;
        if (std::getenv("VERIF_DEBUG"))
            std::cerr << "CASE " << c << " seed " << cseed << " family " << family << " hint " << hint << "\n";
        if (char const* only = std::getenv("VERIF_ONLY_CASE"))
            if (std::uint64_t(std::atoll(only)) != c)
                continue;
        run_problem(spec, rep, prop, c, ro);
    }
    return rep.finish();
}

}  // namespace vt
