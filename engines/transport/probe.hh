// Probe actions: CoreStepActionInterface instances registered at six StepActionOrders that
// read every track slot through CoreTrackView and fill a per-stream iteration record.
// This record is the ground truth all transport monitors read (DESIGN section 3, "Probes").
#pragma once

#include <array>
#include <atomic>
#include <functional>
#include <memory>
#include <string>
#include <vector>

#include "corecel/Types.hh"
#include "celeritas/Types.hh"

namespace celeritas
{
class CoreParams;
}

namespace vt
{
enum ProbePoint : int
{
    P_START = 0,  // order user_start  (after InitializeTracks)
    P_PRE,  // order user_pre (after pre-step, after step-gather-pre)
    P_ALONG,  // order sort_along (after along-step kernels)
    P_SELECT,  // order sort_pre_post (after discrete select)
    P_POST,  // order user_post (after interactions/boundary/tracking cut, after step-gather-post)
    P_END,  // order end (after ExtendFromSecondaries)
    P_COUNT
};

// Status codes mirror celeritas::TrackStatus numerically; 0xff = probe point not visited
constexpr unsigned char status_unseen = 0xff;

struct SecRec
{
    int particle;
    double energy;
    double dir[3];
};

struct SlotRec
{
    unsigned char status[P_COUNT];

    // P_START: occupant identity after track initialization
    int event_start = -1, track_start = -1, parent_start = -1, particle_start = -1;
    double e_start = 0, pos_start[3] = {0, 0, 0}, dir_start[3] = {0, 0, 0}, time_start = 0;
    unsigned nsteps_start = 0;
    int vol_start = -1;

    // P_PRE
    int event = -1, track = -1, parent = -1, particle = -1;
    unsigned nsteps_pre = 0;
    double time_pre = 0, pos_pre[3] = {0, 0, 0}, dir_pre[3] = {0, 0, 0}, e_pre = 0;
    int vol_pre = -1;
    bool boundary_pre = false;
    double step_limit = 0;
    int action_pre = -1, along_action = -1;
    double mfp_pre = 0, macro_xs = 0, range_pre = 0;
    int mat_pre = -1;

    // P_ALONG
    double pos_along[3] = {0, 0, 0}, dir_along[3] = {0, 0, 0}, e_along = 0, step_along = 0,
           edep_along = 0, time_along = 0, mfp_along = 0;
    int action_along = -1;
    bool has_mfp_along = false;
    double msc_true = 0, msc_geom = 0, msc_alpha = 0;
    bool boundary_along = false;
    unsigned nloop_along = 0;

    // P_SELECT
    int action_sel = -1;

    // P_POST
    double pos_post[3] = {0, 0, 0}, dir_post[3] = {0, 0, 0}, e_post = 0, step_post = 0, edep_post = 0,
           time_post = 0;
    int vol_post = -1;
    bool outside_post = false, boundary_post = false;
    int action_post = -1, particle_post = -1, track_post = -1, event_post = -1;
    unsigned nsteps_post = 0;
    int mat_post = -1;
    std::vector<SecRec> secs;  // non-cleared secondaries in the span
    int secs_cleared = 0;  // cleared (null) entries in the span
    int secs_span = 0;  // span size

    // P_END: occupant after ExtendFromSecondaries (in-place initialisation of a secondary)
    int event_end = -1, track_end = -1, parent_end = -1, particle_end = -1;
    double e_end = 0;

    SlotRec()
    {
        for (auto& s : status)
            s = status_unseen;
    }
};

struct IterRec
{
    std::vector<SlotRec> slots;
    // secondary stack allocator at P_END
    unsigned alloc_size_end = 0, alloc_capacity = 0;
    bool visited[P_COUNT] = {false, false, false, false, false, false};
    void reset(std::size_t n)
    {
        slots.assign(n, SlotRec());
        alloc_size_end = 0;
        for (auto& v : visited)
            v = false;
    }
};

// Per-stream log + optional schedule perturbation hook
struct ProbeLog
{
    IterRec iter;
    std::uint64_t events_hash = 0;  // running hash of (point) sequence for interleaving stats
    std::uint64_t calls = 0;
};

struct ProbeSet
{
    std::vector<ProbeLog> logs;  // indexed by stream id
    // optional perturbation called at every probe point (stream id, point)
    std::function<void(unsigned, int)> perturb;
    // ids of the probe actions, by point
    std::array<int, P_COUNT> action_ids{};
    bool enabled = true;
};

// Register the six probes in the action registry of `core` (must be called after all
// library and user actions have been inserted so that probes run last within each order).
std::shared_ptr<ProbeSet> insert_probes(celeritas::CoreParams const& core, int max_streams);

}  // namespace vt
