// "branch" physics family: an energy-conserving mock branching interaction that goes
// through the production Process/Model/PhysicsParams/InteractionApplier machinery (cutoffs,
// secondary stack, failure handling), with a tunable number of secondaries (0..N) so that
// track bookkeeping is stressed far beyond what real EM models produce.
#pragma once

#include <memory>
#include <string>

#include "celeritas/Types.hh"
#include "celeritas/global/ActionInterface.hh"
#include "celeritas/phys/Model.hh"
#include "celeritas/phys/Process.hh"

namespace celeritas
{
class MaterialParams;
class ParticleParams;
}  // namespace celeritas

namespace vt
{
struct BranchData
{
    celeritas::ParticleId gamma, electron, positron;
    int max_secondaries = 4;
    double kill_prob = 0.3;
    bool positrons = true;
    double mc2 = 0.51099891;
    double absorb_below = 0.01;
    double emin = 1e-4;
};

class BranchProcess final : public celeritas::Process
{
  public:
    struct Input
    {
        std::shared_ptr<celeritas::MaterialParams const> materials;
        std::shared_ptr<celeritas::ParticleParams const> particles;
        celeritas::ParticleId particle;
        std::string label;
        int max_secondaries = 4;
        double kill_prob = 0.3;
        double xs_barn = 5;
        double eloss = 0;  // MeV cm^2 per atom; 0 = no continuous loss
        bool positrons = true;
        double absorb_below = 0.01;
        double emin = 1e-4, emax = 1e8;
    };

    explicit BranchProcess(Input inp) : inp_(std::move(inp)) {}

    VecModel build_models(ActionIdIter start_id) const final;
    StepLimitBuilders step_limits(celeritas::Applicability range) const final;
    // charged particles lose energy along the step: like every production e+/e- process, use the
    // integral approach so that the cross section is re-evaluated at the post-step energy
    bool use_integral_xs() const final;
    std::string_view label() const final { return inp_.label; }

  private:
    Input inp_;
};

}  // namespace vt
