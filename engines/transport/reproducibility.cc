// C06: after reseeding for an event id, the same primaries on a state with the same number of
// track slots give bit-identical per-track step histories whatever ran on the state before
// (other events, an aborted event + reset) and whichever re-indexing order / timing /
// status-checker option is enabled.
#include <algorithm>
#include <cmath>
#include <exception>
#include <memory>

#include "corecel/Assert.hh"
#include "celeritas/geo/GeoParams.hh"
#include "celeritas/global/CoreParams.hh"
#include "celeritas/global/CoreState.hh"
#include "celeritas/global/Stepper.hh"
#include "celeritas/user/SimpleCalo.hh"
#include "celeritas/user/StepCollector.hh"

#include "engine_common.hh"
#include "history.hh"
#include "probe.hh"
#include "problem.hh"
#include "verif_celer.hh"

using namespace celeritas;

namespace vt
{
namespace
{
using HostStepper = Stepper<MemSpace::host>;

// Transport `prims` (one or more events) until drained or `max_iters` stepper calls were made.
// Returns true if drained.
// Slots that were empty at the pre-step point of an iteration but acted during it (status no
// longer inactive at the post-step point): a finished track's slot doing something in a later
// step.  Tracks are only initialised at the start of an iteration, so this never happens
// legitimately; what a previous event left in an empty slot decides whether it does.
std::uint64_t count_acting_empty_slots(IterRec const& it)
{
    std::uint64_t n = 0;
    for (auto const& r : it.slots)
        if (r.status[P_PRE] == 0 && r.status[P_POST] != 0)
            ++n;
    return n;
}

bool run_events(Problem& prob, HostStepper& step, std::vector<Primary> const& prims, HistoryRecorder* rec,
                std::uint64_t max_iters, std::uint64_t* iters_out = nullptr, std::uint64_t* ghosts_out = nullptr)
{
    auto res = step(make_span(prims));
    auto note = [&] {
        auto const& it = prob.probes->logs[step.state().stream_id().get()].iter;
        if (rec)
            rec->add(it);
        if (ghosts_out)
            *ghosts_out += count_acting_empty_slots(it);
    };
    note();
    std::uint64_t it = 1;
    while (res && it < max_iters)
    {
        res = step();
        note();
        ++it;
    }
    if (iters_out)
        *iters_out = it;
    return !res;
}

// Calorimeter over (up to four) material volumes, attached to reference and variant alike: the
// statement covers tallies as well as histories, and a tally also sees what a finished slot does
std::shared_ptr<SimpleCalo> attach_calo(Problem& prob)
{
    auto const& geo = *prob.core->geometry();
    std::vector<Label> labels;
    for (int v = 0; v < prob.num_volumes && labels.size() < 4; ++v)
        if (prob.spec.volume_to_mat[v] >= 0)
            labels.push_back(geo.id_to_label(VolumeId(v)));
    auto calo = std::make_shared<SimpleCalo>("verif-calo-c06", labels, geo, 1);
    StepCollector::make_and_insert(*prob.core, {calo});
    return calo;
}

char const* order_name(int o)
{
    static char const* const n[] = {"none", "init_charge", "reindex_shuffle", "reindex_status",
                                    "reindex_particle_type", "reindex_along_step_action",
                                    "reindex_step_limit_action", "reindex_both_action"};
    return (o >= 0 && o < 8) ? n[o] : "?";
}
}  // namespace

int run_c06(verif::Args const& args, verif::Report& rep)
{
    rep.set_rule(
        "A case = one generated problem + one target event E (1-6 primaries) + one variant run. The "
        "reference transports E on a fresh state after reseed(E). The variant builds its own CoreParams "
        "from the same spec (physics tables hash-identical) with ONE OR MORE of: a re-indexing track "
        "order, action timing, the debug status checker, warm-up; and a history before E on the same "
        "state: 0-4 other events (different unique ids, any event ids), optionally an aborted event "
        "(stepping stopped mid-cascade) followed by reset_state(). Then reseed(E) and E again. The "
        "canonical history (per track id: every probe field of every step, bit patterns; action ids by "
        "label) must be identical. Cell = variant kinds x family x whether E has >= 2 tracks; "
        "non-trivial = target history with >= 5 steps.");
    rep.assume("same number of track slots in reference and variant (part of the statement)");
    rep.assume("layout order init_charge is only compared against itself");

    std::uint64_t ncases = args.budget(60, 1500);
    int variants_per_case = args.thorough() ? 8 : 5;
    for (std::uint64_t c = 0; c < ncases; ++c)
    {
        std::uint64_t cseed = verif::mix_seed(args.seed, c * 104729 + 5);
        verif::Rng rng(cseed);
        std::string family = rng.coin(0.3) ? "branch" : "synth";
        std::string hint = rng.coin(0.25) ? "field" : "";
        ProblemSpec ref_spec = draw_problem(cseed, family, hint);
        bool layout_charge = rng.coin(0.15);
        ref_spec.track_order = layout_charge ? 1 : 0;
        ref_spec.status_checker = false;
        ref_spec.action_times = false;
        if (ref_spec.num_track_slots > 64)
            ref_spec.num_track_slots = 64;
        double emax = rng.pick(std::vector<double>{3, 10, 30, 100});
        if (ref_spec.num_track_slots <= 4)
            emax = std::min(emax, 10.0);
        json ctx = {{"case", c}, {"seed", cseed}, {"problem", ref_spec.to_json()}};

        std::shared_ptr<Problem> ref;

        std::shared_ptr<SimpleCalo> ref_calo;
        try
        {
            BuildOptions rbo;
            rbo.customize = [&](Problem& p) { ref_calo = attach_calo(p); };
            ref = build_problem(ref_spec, rbo);
        }
        catch (RuntimeError const&)
        {
            rep.inconclusive("rejected input");
            continue;
        }
        catch (DebugError const& e)
        {
            rep.inconclusive("debug-assert(setup): " + verif::describe(e));
            continue;
        }

        // target event
        std::vector<double> calo0;
        int target_event = int(rng.integer(0, ref_spec.max_events - 1));
        std::uint64_t target_unique = std::uint64_t(rng.integer(0, 1000000));
        auto tp = draw_primaries(*ref, rng, 1, target_event, 6, emax);
        if (tp.empty() || tp[0].empty())
        {
            rep.inconclusive("no primaries placed");
            continue;
        }
        std::vector<Primary> target = tp[0];
        std::uint64_t const cap = 200000;

        EventHist h0;
        try
        {
            StepperInput si;
            si.params = ref->core;
            si.stream_id = StreamId{0};
            si.num_track_slots = ref_spec.num_track_slots;
            HostStepper step(si);
            step.reseed(UniqueEventId{target_unique});
            HistoryRecorder rec(ref->action_labels);
            if (!run_events(*ref, step, target, &rec, cap))
            {
                rep.inconclusive("iteration cap in reference run");
                continue;
            }
            h0 = rec.events().at(target_event);
            for (auto e : ref_calo->calc_total_energy_deposition())
                calo0.push_back(double(e));
        }
        catch (std::exception const& e)
        {
            rep.inconclusive(std::string("reference run threw: ") + typeid(e).name());
            continue;
        }
        bool nontrivial = h0.num_steps() >= 5;
        std::uint64_t const hash0 = h0.hash();

        for (int v = 0; v < variants_per_case; ++v)
        {
            verif::Rng vr(verif::mix_seed(cseed, 1000 + v));
            ProblemSpec vs = ref_spec;
            std::vector<std::string> kinds;
            bool single = vr.coin(0.5);
            int which = int(vr.integer(0, 5));
            auto want = [&](int k) { return single ? which == k : vr.coin(0.4); };
            if (want(0) && !layout_charge)
            {
                vs.track_order = int(vr.integer(2, 7));
                kinds.push_back(std::string("order=") + order_name(vs.track_order));
            }
            if (want(1))
            {
                vs.action_times = true;
                kinds.push_back("action-times");
            }
            if (want(2))
            {
                vs.status_checker = true;
                kinds.push_back("status-checker");
            }
            bool warm = want(3);
            if (warm)
                kinds.push_back("warm-up");
            int nprev = want(4) ? int(vr.integer(1, 4)) : 0;
            if (nprev)
                kinds.push_back("prev-events");
            bool abort_one = want(5);
            // how the aborted event is ended: reset_state() alone, or kill_active() + the flush
            // steps (the non-fatal abort of the Geant4 integration) followed by reset_state()
            bool abort_kill = abort_one && vr.coin(0.5);
            if (abort_one)
                kinds.push_back(abort_kill ? "aborted+kill_active+reset" : "aborted+reset");
            if (kinds.empty())
                kinds.push_back("fresh-rebuild");
            std::string kind;
            for (auto const& k : kinds)
                kind += (kind.empty() ? "" : "+") + k;
            json vctx = ctx;
            vctx["variant"] = {{"index", v}, {"kinds", kinds}, {"track_order", vs.track_order},
                               {"target_event", target_event}, {"target_unique_id", target_unique},
                               {"prev_events", nprev}, {"abort", abort_one}, {"warm_up", warm}};
            try
            {
                std::shared_ptr<SimpleCalo> var_calo;
                BuildOptions vbo;
                vbo.customize = [&](Problem& p) { var_calo = attach_calo(p); };
                auto var = build_problem(vs, vbo);
                if (var->physics_hash != ref->physics_hash)
                {
                    rep.violation("C06/setup/physics-tables-differ",
                                  "two builds of the same problem spec produced different physics tables", vctx);
                    continue;
                }
                StepperInput si;
                si.params = var->core;
                si.stream_id = StreamId{0};
                si.num_track_slots = vs.num_track_slots;
                si.action_times = vs.action_times;
                HostStepper step(si);
                if (warm)
                    step.warm_up();
                bool ok = true;
                for (int p = 0; p < nprev && ok; ++p)
                {
                    int ev = vr.coin(0.3) ? target_event : int(vr.integer(0, vs.max_events - 1));
                    auto pp = draw_primaries(*var, vr, 1, ev, 8, emax * (vr.coin(0.3) ? 3 : 1));
                    if (pp.empty() || pp[0].empty())
                        continue;
                    step.reseed(UniqueEventId{std::uint64_t(vr.integer(0, 1000000))});
                    ok = run_events(*var, step, pp[0], nullptr, cap);
                }
                if (!ok)
                {
                    rep.inconclusive("iteration cap in a preceding event");
                    continue;
                }
                if (abort_one)
                {
                    int ev = int(vr.integer(0, vs.max_events - 1));
                    auto pp = draw_primaries(*var, vr, 1, ev, 8, emax * 3);
                    if (!pp.empty() && !pp[0].empty())
                    {
                        step.reseed(UniqueEventId{std::uint64_t(vr.integer(0, 1000000))});
                        bool drained = run_events(*var, step, pp[0], nullptr, std::uint64_t(vr.integer(1, 25)));
                        if (abort_kill && !drained)
                        {
                            step.kill_active();
                            // flush: the killed tracks are handed to the tracking cut in the next step
                            StepperResult fr = step();
                            for (int k = 0; fr && k < 1000; ++k)
                            {
                                step.kill_active();
                                fr = step();
                            }
                        }
                        step.reset_state();
                    }
                }
                step.reseed(UniqueEventId{target_unique});
                var_calo->clear();
                HistoryRecorder rec(var->action_labels);
                std::uint64_t ghosts = 0;
                bool const drained_target = run_events(*var, step, target, &rec, cap, nullptr, &ghosts);
                if (ghosts)
                {
                    vctx["acting_empty_slot_steps"] = ghosts;
                    rep.violation("C06/finished-slot-acted/" + kind,
                                  "during the target event a slot that was empty at the pre-step point acted in the "
                                  "step (left-over state of an earlier event): it never does on a fresh state",
                                  vctx);
                    continue;
                }
                if (!drained_target)
                {
                    rep.violation("C06/history-mismatch/" + kind + "/did-not-drain",
                                  "the target event drained in the reference run but hit the iteration cap "
                                  "in the variant run",
                                  vctx);
                    continue;
                }
                auto itv = rec.events().find(target_event);
                if (itv == rec.events().end())
                {
                    rep.violation("C06/history-mismatch/" + kind + "/no-steps", "target event took no steps", vctx);
                    continue;
                }
                if (itv->second.hash() != hash0)
                {
                    json d = diff_events(h0, itv->second);
                    vctx["first_difference"] = d;
                    std::string field = d.value("kind", "?") == "field" ? d.value("field", "?") : d.value("kind", "?");
                    if (h0.had_failure || itv->second.had_failure)
                    {
                        // The shared secondary stack ran out in this event: which track's
                        // allocation fails depends on the order in which slots are visited
                        vctx["secondary_buffer_exhausted"] = true;
                        bool order_changed = vs.track_order != ref_spec.track_order;
                        vctx["first_difference"] = d;
                        rep.violation(std::string("C06/history-mismatch/secondary-buffer-exhausted")
                                          + (order_changed ? "" : "/same-order"),
                                      "the secondary buffer ran out during the target event and the per-track "
                                      "histories depend on the re-indexing order / state history",
                                      vctx);
                        continue;
                    }
                    rep.violation("C06/history-mismatch/" + kind + "/" + field,
                                  "per-track step history of the target event differs from the fresh-state "
                                  "reference (a = reference, b = variant)",
                                  vctx);
                    continue;
                }
                // tallies of the target event alone (the calorimeter was cleared before it): same
                // terms, possibly summed in another slot order: 2 eps (N + 16) sum  (as in C07)
                {
                    auto vc = var_calo->calc_total_energy_deposition();
                    bool same = vc.size() == calo0.size();
                    double worst = 0;
                    for (std::size_t i = 0; same && i < vc.size(); ++i)
                    {
                        double a = calo0[i], b = double(vc[i]);
                        double tol = 2 * 2.220446049250313e-16 * (double(h0.num_steps()) + 16) * std::max(std::fabs(a), std::fabs(b));
                        worst = std::max(worst, std::fabs(a - b));
                        if (!(std::fabs(a - b) <= tol))
                            same = false;
                    }
                    if (!same)
                    {
                        vctx["calo_reference"] = calo0;
                        std::vector<double> vv;
                        for (auto e : vc)
                            vv.push_back(double(e));
                        vctx["calo_variant"] = vv;
                        rep.violation("C06/tally-mismatch/" + kind + "/simple-calo",
                                      "calorimeter totals of the target event differ from the fresh-state reference "
                                      "although the per-track histories are identical",
                                      vctx);
                        continue;
                    }
                }
                if (nontrivial)
                    rep.held(kind + "/" + family + (h0.tracks.size() >= 2 ? "/multi-track" : "/single-track"));
                else
                    rep.held_trivial();
                rep.observe("target_steps_compared", h0.num_steps());
            }
            catch (RuntimeError const& e)
            {
                rep.inconclusive("variant rejected/threw RuntimeError: " + std::string(e.details().condition).substr(0, 80));
            }
            catch (DebugError const& e)
            {
                if (verif::is_bounds_assertion(e))
                    rep.violation(verif::bounds_key("C06", e), "bounds assertion: " + verif::describe(e), vctx);
                else
                {
                    rep.inconclusive("debug-assert: " + verif::describe(e));
                    rep.observe("assert:" + verif::describe(e));
                }
            }
            catch (std::exception const& e)
            {
                bool handled = false;
                try
                {
                    std::rethrow_if_nested(e);
                }
                catch (DebugError const& d)
                {
                    handled = true;
                    if (verif::is_bounds_assertion(d))
                        rep.violation(verif::bounds_key("C06", d), "bounds assertion: " + verif::describe(d), vctx);
                    else
                    {
                        rep.inconclusive("debug-assert: " + verif::describe(d));
                        rep.observe("assert:" + verif::describe(d));
                    }
                }
                catch (...)
                {
                }
                if (!handled)
                    rep.inconclusive(std::string("variant threw: ") + std::string(e.what()).substr(0, 120));
            }
        }
        if (rep.want_sample(4))
        {
            json s = ctx;
            s["target_event"] = target_event;
            s["target_unique_id"] = target_unique;
            s["reference_tracks"] = h0.tracks.size();
            s["reference_steps"] = h0.num_steps();
            s["reference_hash"] = hash0;
            rep.sample(s, 4);
        }
    }
    return rep.finish();
}

}  // namespace vt
