// Declarations shared by the transport engine's translation units
#pragma once

#include <cstdint>
#include <string>

#include "problem.hh"
#include "verif_common.hh"

namespace vt
{
struct RunOptions
{
    int batches = 0;  // 0 = random 1..2 (second batch inserted while tracks are in flight)
    int max_events_in_flight = 4;
    int max_primaries = 8;
    double emax = 100;  // MeV
    std::uint64_t iteration_cap = 400000;
};

bool run_problem(ProblemSpec const& spec,
                 verif::Report& rep,
                 std::string const& prop,
                 std::uint64_t case_index,
                 RunOptions const& ro);

// C01 / C02 / C05: generated problems under the ledger / population / step-history monitors
int run_ledger_family(verif::Args const& args, verif::Report& rep);

// C06: bit-exact reproducibility of an event under histories / track orders / options
int run_c06(verif::Args const& args, verif::Report& rep);

// C07: concurrent streams vs serial execution (+ TSan in the tsan variant)
int run_c07(verif::Args const& args, verif::Report& rep);

// C16: secondary-buffer starvation and initializer/primary capacity overflow
int run_c16(verif::Args const& args, verif::Report& rep);

// C17: step collector / calorimeter / diagnostics vs probe truth
int run_c17(verif::Args const& args, verif::Report& rep);

}  // namespace vt
