#include "probe.hh"

#include "corecel/sys/ActionRegistry.hh"
#include "celeritas/global/ActionInterface.hh"
#include "celeritas/global/CoreParams.hh"
#include "celeritas/global/CoreState.hh"
#include "celeritas/global/CoreTrackView.hh"

using namespace celeritas;

namespace vt
{
namespace
{
//---------------------------------------------------------------------------//
char const* point_label(int p)
{
    static char const* const names[]
        = {"verif-probe-start", "verif-probe-pre", "verif-probe-along", "verif-probe-select",
           "verif-probe-post", "verif-probe-end"};
    return names[p];
}

StepActionOrder point_order(int p)
{
    switch (p)
    {
        case P_START: return StepActionOrder::user_start;
        case P_PRE: return StepActionOrder::user_pre;
        case P_ALONG: return StepActionOrder::sort_along;
        case P_SELECT: return StepActionOrder::sort_pre_post;
        case P_POST: return StepActionOrder::user_post;
        default: return StepActionOrder::end;
    }
}

inline void copy3(double* dst, Real3 const& src)
{
    dst[0] = src[0];
    dst[1] = src[1];
    dst[2] = src[2];
}

class ProbeAction final : public CoreStepActionInterface
{
  public:
    ProbeAction(ActionId id, int point, std::shared_ptr<ProbeSet> set)
        : id_(id), point_(point), set_(std::move(set))
    {
    }

    ActionId action_id() const final { return id_; }
    std::string_view label() const final { return point_label(point_); }
    std::string_view description() const final { return "verification probe (read-only)"; }
    StepActionOrder order() const final { return point_order(point_); }

    void step(CoreParams const& params, CoreStateHost& state) const final;
    void step(CoreParams const&, CoreStateDevice&) const final { CELER_NOT_CONFIGURED("device"); }

  private:
    ActionId id_;
    int point_;
    std::shared_ptr<ProbeSet> set_;
};

void ProbeAction::step(CoreParams const& params, CoreStateHost& state) const
{
    if (!set_->enabled || state.warming_up())
        return;
    unsigned stream = state.stream_id().get();
    if (set_->perturb)
        set_->perturb(stream, point_);
    ProbeLog& log = set_->logs[stream];
    log.calls += 1;
    IterRec& it = log.iter;
    size_type const n = state.size();
    if (point_ == P_START || it.slots.size() != n)
    {
        // first probe of the iteration
        it.reset(n);
    }
    it.visited[point_] = true;

    auto const& pref = params.host_ref();
    auto const& sref = state.ref();

    for (size_type i = 0; i < n; ++i)
    {
        CoreTrackView track(pref, sref, TrackSlotId{i});
        SlotRec& r = it.slots[i];
        auto sim = track.make_sim_view();
        TrackStatus status = sim.status();
        r.status[point_] = static_cast<unsigned char>(status);
        if (status == TrackStatus::inactive)
            continue;

        auto par = track.make_particle_view();
        auto geo = track.make_geo_view();
        bool geo_ok = !(status == TrackStatus::errored) || !geo.failed();

        switch (point_)
        {
            case P_START: {
                r.event_start = sim.event_id() ? int(sim.event_id().get()) : -1;
                r.track_start = sim.track_id() ? int(sim.track_id().get()) : -1;
                r.parent_start = sim.parent_id() ? int(sim.parent_id().get()) : -1;
                r.particle_start = par.particle_id() ? int(par.particle_id().get()) : -1;
                r.e_start = par.energy().value();
                r.time_start = sim.time();
                r.nsteps_start = sim.num_steps();
                if (geo_ok)
                {
                    copy3(r.pos_start, geo.pos());
                    copy3(r.dir_start, geo.dir());
                    r.vol_start = geo.is_outside() ? -1 : int(geo.volume_id().get());
                }
                break;
            }
            case P_PRE: {
                r.event = sim.event_id() ? int(sim.event_id().get()) : -1;
                r.track = sim.track_id() ? int(sim.track_id().get()) : -1;
                r.parent = sim.parent_id() ? int(sim.parent_id().get()) : -1;
                r.particle = par.particle_id() ? int(par.particle_id().get()) : -1;
                r.nsteps_pre = sim.num_steps();
                r.time_pre = sim.time();
                r.e_pre = par.energy().value();
                r.step_limit = sim.step_length();
                r.action_pre = sim.post_step_action() ? int(sim.post_step_action().get()) : -1;
                r.along_action = sim.along_step_action() ? int(sim.along_step_action().get()) : -1;
                if (geo_ok)
                {
                    copy3(r.pos_pre, geo.pos());
                    copy3(r.dir_pre, geo.dir());
                    r.vol_pre = geo.is_outside() ? -1 : int(geo.volume_id().get());
                    r.boundary_pre = geo.is_on_boundary();
                }
                if (status == TrackStatus::alive)
                {
                    auto phys = track.make_physics_view();
                    auto pstep = track.make_physics_step_view();
                    r.mfp_pre = phys.has_interaction_mfp() ? phys.interaction_mfp() : -1;
                    r.macro_xs = pstep.macro_xs();
                    r.range_pre = phys.eloss_ppid() ? phys.dedx_range() : 0;
                    r.mat_pre = int(track.make_material_view().material_id().get());
                }
                break;
            }
            case P_ALONG: {
                r.e_along = par.energy().value();
                r.step_along = sim.step_length();
                r.time_along = sim.time();
                r.action_along = sim.post_step_action() ? int(sim.post_step_action().get()) : -1;
                r.nloop_along = sim.num_looping_steps();
                if (geo_ok)
                {
                    copy3(r.pos_along, geo.pos());
                    copy3(r.dir_along, geo.dir());
                    r.boundary_along = geo.is_on_boundary();
                }
                auto pstep = track.make_physics_step_view();
                r.edep_along = pstep.energy_deposition().value();
                auto const& ms = pstep.msc_step();
                r.msc_true = ms.true_path;
                r.msc_geom = ms.geom_path;
                r.msc_alpha = ms.alpha;
                auto phys = track.make_physics_view();
                r.has_mfp_along = phys.has_interaction_mfp();
                r.mfp_along = r.has_mfp_along ? phys.interaction_mfp() : -1;
                break;
            }
            case P_SELECT: {
                r.action_sel = sim.post_step_action() ? int(sim.post_step_action().get()) : -1;
                break;
            }
            case P_POST: {
                r.e_post = par.energy().value();
                r.particle_post = par.particle_id() ? int(par.particle_id().get()) : -1;
                r.track_post = sim.track_id() ? int(sim.track_id().get()) : -1;
                r.event_post = sim.event_id() ? int(sim.event_id().get()) : -1;
                r.step_post = sim.step_length();
                r.time_post = sim.time();
                r.action_post = sim.post_step_action() ? int(sim.post_step_action().get()) : -1;
                r.nsteps_post = sim.num_steps();
                if (geo_ok)
                {
                    copy3(r.pos_post, geo.pos());
                    copy3(r.dir_post, geo.dir());
                    r.outside_post = geo.is_outside();
                    r.vol_post = r.outside_post ? -1 : int(geo.volume_id().get());
                    r.boundary_post = geo.is_on_boundary();
                }
                if (status == TrackStatus::alive)
                {
                    r.mat_post = int(track.make_material_view().material_id().get());
                }
                auto pstep = track.make_physics_step_view();
                r.edep_post = pstep.energy_deposition().value();
                auto secs = pstep.secondaries();
                r.secs_span = int(secs.size());
                for (auto const& s : secs)
                {
                    if (s)
                    {
                        SecRec sr;
                        sr.particle = int(s.particle_id.get());
                        sr.energy = s.energy.value();
                        copy3(sr.dir, s.direction);
                        r.secs.push_back(sr);
                    }
                    else
                    {
                        ++r.secs_cleared;
                    }
                }
                break;
            }
            case P_END: {
                r.event_end = sim.event_id() ? int(sim.event_id().get()) : -1;
                r.track_end = sim.track_id() ? int(sim.track_id().get()) : -1;
                r.parent_end = sim.parent_id() ? int(sim.parent_id().get()) : -1;
                r.particle_end = par.particle_id() ? int(par.particle_id().get()) : -1;
                r.e_end = par.energy().value();
                break;
            }
            default: break;
        }
    }

    if (point_ == P_END && n > 0)
    {
        CoreTrackView track(pref, sref, TrackSlotId{0});
        auto alloc = track.make_physics_step_view().make_secondary_allocator();
        it.alloc_capacity = alloc.capacity();
        it.alloc_size_end = alloc.size();
    }
}

}  // namespace

std::shared_ptr<ProbeSet> insert_probes(CoreParams const& core, int max_streams)
{
    auto set = std::make_shared<ProbeSet>();
    set->logs.resize(max_streams);
    auto& reg = *core.action_reg();
    for (int p = 0; p < P_COUNT; ++p)
    {
        auto id = reg.next_id();
        set->action_ids[p] = int(id.get());
        reg.insert(std::make_shared<ProbeAction>(id, p, set));
    }
    return set;
}

}  // namespace vt
