// Engine `transport`: drives CoreParams/Stepper<host> over generated problems with probes at
// six action orders and online monitors.  Serves C01 C02 C05 (this file) and, through the
// same machinery, C06 C07 C16 C17 (see the run_* functions).
#include <exception>
#include <fstream>
#include <memory>
#include <thread>

#include "corecel/Assert.hh"
#include "corecel/io/Logger.hh"
#include "celeritas/global/CoreParams.hh"
#include "celeritas/global/CoreState.hh"
#include "celeritas/global/Stepper.hh"

#include "engine_common.hh"
#include "monitors.hh"
#include "probe.hh"
#include "problem.hh"
#include "verif_celer.hh"
#include "verif_common.hh"

using namespace celeritas;
using namespace vt;
using verif::json;

namespace vt
{
//---------------------------------------------------------------------------//
// Run one generated problem to completion under the monitors. Returns false when the case
// was inconclusive (already recorded).
bool run_problem(ProblemSpec const& spec,
                 verif::Report& rep,
                 std::string const& prop,
                 std::uint64_t case_index,
                 RunOptions const& ro)
{
    json ctx = {{"case", case_index}, {"seed", spec.seed}, {"problem", spec.to_json()},
                {"run", {{"batches", ro.batches}, {"max_events_in_flight", ro.max_events_in_flight},
                         {"max_primaries", ro.max_primaries}, {"emax", ro.emax},
                         {"iteration_cap", ro.iteration_cap}}}};
    std::shared_ptr<Problem> prob;
    try
    {
        BuildOptions bo;
        bo.max_streams = 1;
        prob = build_problem(spec, bo);
    }
    catch (RuntimeError const& e)
    {
        rep.inconclusive("rejected input: " + std::string(e.details().condition));
        return false;
    }
    catch (DebugError const& e)
    {
        if (verif::is_bounds_assertion(e))
            rep.violation(verif::bounds_key(prop, e), "bounds assertion during problem construction", ctx);
        else
        {
            rep.inconclusive("debug-assert(setup): " + verif::describe(e));
            rep.observe("assert:" + verif::describe(e));
        }
        return false;
    }

    rep.observe(spec.geometry.rfind("gen:", 0) == 0 ? "geometry:generated-nested" : "geometry:bundled");
    rep.observe(std::string("locator:") + (prob->locator ? "available" : "unavailable"));
    verif::Rng rng(verif::mix_seed(spec.seed, 0xabcdef));
    MonitorOptions mo;
    mo.report_prefix = prop;
    StateMonitor mon(*prob, rep, mo, ctx);

    try
    {
        StepperInput si;
        si.params = prob->core;
        si.stream_id = StreamId{0};
        si.num_track_slots = spec.num_track_slots;
        si.action_times = spec.action_times;
        Stepper<MemSpace::host> step(si);
        if (rng.coin(0.3))
            step.warm_up();

        int nbatches = ro.batches > 0 ? ro.batches : int(rng.integer(1, 2));
        int next_event = 0;
        std::uint64_t iters = 0;
        bool capped = false;
        for (int batch = 0; batch < nbatches && !capped; ++batch)
        {
            int nev = int(rng.integer(1, ro.max_events_in_flight));
            auto evs = draw_primaries(*prob, rng, nev, next_event, ro.max_primaries, ro.emax);
            next_event += nev;
            std::vector<Primary> all;
            for (auto& e : evs)
                all.insert(all.end(), e.begin(), e.end());
            if (all.empty())
                continue;
            if (batch == 0)
                step.reseed(UniqueEventId{spec.seed % 100000});
            // first batch, then optionally a second batch inserted while tracks are in flight
            mon.add_primaries(make_span(all));
            auto res = step(make_span(all));
            mon.on_iteration(prob->probes->logs[0].iter, res, step.state().counters(), step.state_ref(), all.size());
            ++iters;
            std::uint64_t stop_at = (batch + 1 < nbatches) ? std::uint64_t(rng.integer(1, 30)) : ~0ull;
            std::uint64_t local = 0;
            if (mon.fatal())
                capped = true;
            while (res && local < stop_at && !mon.fatal())
            {
                res = step();
                mon.on_iteration(prob->probes->logs[0].iter, res, step.state().counters(), step.state_ref(), 0);
                ++iters;
                ++local;
                if (iters >= ro.iteration_cap || mon.fatal())
                {
                    capped = true;
                    break;
                }
            }
            if (!res)
                mon.on_drained();
            else if (batch + 1 == nbatches && !capped)
            {
                // unreachable: loop above only exits on !res or cap for the last batch
            }
        }
        rep.observe("iterations", iters);
        rep.observe("steps", mon.steps());
        rep.observe("tracks", mon.tracks());
        rep.observe("physics_failures", mon.failures_seen());
        if (capped)
        {
            if (mon.nontermination_witness())
                ;  // violation already recorded
            else
            {
                rep.inconclusive("iteration cap reached without a non-termination witness");
                if (std::getenv("VERIF_DEBUG"))
                    std::cerr << "CAPSTAT iters=" << mon.iterations() << " steps=" << mon.steps() << " tracks=" << mon.tracks() << "\n" << "CAPPED case " << case_index << " " << spec.to_json().dump() << "\n trace: "
                              << mon.sample_trace().dump() << "\n";
            }
            return false;
        }
    }
    catch (DebugError const& e)
    {
        if (verif::is_bounds_assertion(e))
            rep.violation(verif::bounds_key(prop, e), "bounds assertion while stepping: " + verif::describe(e), ctx);
        else
        {
            rep.inconclusive("debug-assert: " + verif::describe(e));
            rep.observe("assert:" + verif::describe(e));
            if (std::getenv("VERIF_DEBUG"))
                std::cerr << "DEBUGERR " << e.what() << "\n" << spec.to_json().dump() << "\n";
        }
        return false;
    }
    catch (RuntimeError const& e)
    {
        // stepping under ample storage must not throw
        rep.violation(prop + "/stepper-exception/" + verif::short_file(e.details().file.c_str()),
                      std::string("stepping threw RuntimeError: ") + e.what(), ctx);
        return false;
    }
    catch (std::exception const& e)
    {
        // exceptions from kernels arrive wrapped (KernelContextException / nested)
        std::string what = e.what();
        try
        {
            std::rethrow_if_nested(e);
        }
        catch (DebugError const& d)
        {
            if (verif::is_bounds_assertion(d))
                rep.violation(verif::bounds_key(prop, d), "bounds assertion in kernel: " + verif::describe(d), ctx);
            else
            {
                rep.inconclusive("debug-assert: " + verif::describe(d));
                rep.observe("assert:" + verif::describe(d));
                if (std::getenv("VERIF_DEBUG"))
                    std::cerr << "DEBUGERR " << what << "\n" << spec.to_json().dump() << "\n";
            }
            return false;
        }
        catch (std::exception const& inner)
        {
            what += std::string(" <- ") + inner.what();
        }
        rep.violation(prop + "/stepper-exception/other", "stepping threw: " + what.substr(0, 400), ctx);
        return false;
    }

    // held: register the coverage cells of this property
    std::string pre = prop + "/";
    std::size_t ncell = 0;
    for (auto const& c : mon.cells())
    {
        if (c.compare(0, pre.size(), pre) == 0)
        {
            rep.cell(c.substr(pre.size()));
            ++ncell;
        }
    }
    if (mon.violations() == 0)
    {
        if (ncell == 0 || mon.steps() == 0)
            rep.held_trivial();
        else
            rep.held("");
    }
    else
    {
        // violations were recorded "in case": count the case itself once
        rep.inconclusive("case had violations (recorded separately)");
    }
    if (rep.want_sample(4))
    {
        json s = {{"case", case_index}, {"problem", spec.to_json()}, {"iterations", mon.iterations()},
                  {"steps", mon.steps()}, {"tracks", mon.tracks()}, {"first_steps", mon.sample_trace()}};
        json evs = json::object();
        for (auto const& kv : mon.events())
            evs[std::to_string(kv.first)] = {{"A_in", double(kv.second.a_in)}, {"deposit", double(kv.second.dep)},
                                             {"A_exit", double(kv.second.a_exit)}, {"steps", kv.second.steps},
                                             {"tracks", kv.second.tracks}};
        s["event_ledgers"] = evs;
        rep.sample(s, 4);
    }
    return true;
}

}  // namespace vt

//---------------------------------------------------------------------------//
int main(int argc, char** argv)
{
    auto args = verif::parse_args(argc, argv);
    // keep the library quiet: diagnostics about killed/errored tracks are not verdicts
    self_logger().level(LogLevel::critical);
    world_logger().level(LogLevel::critical);

    std::string const prop = args.property;
    verif::Report rep(prop, "transport", args);
    try
    {
        if (!args.replay.empty())
        {
            // replay file: {"witnesses":[{"case":{"problem":...,"run":...}}]} or a bare case object
            std::ifstream f(args.replay);
            json j = json::parse(f);
            json c = j.contains("witnesses") ? j["witnesses"][0]["case"] : j;
            ProblemSpec spec = ProblemSpec::from_json(c.at("problem"));
            RunOptions ro;
            if (c.contains("run"))
            {
                ro.batches = c["run"]["batches"].get<int>();
                ro.max_events_in_flight = c["run"]["max_events_in_flight"].get<int>();
                ro.max_primaries = c["run"]["max_primaries"].get<int>();
                ro.emax = c["run"]["emax"].get<double>();
                ro.iteration_cap = c["run"]["iteration_cap"].get<std::uint64_t>();
            }
            run_problem(spec, rep, prop, c.value("case", 0), ro);
            return rep.finish();
        }
        if (prop == "C01" || prop == "C02" || prop == "C05")
            return run_ledger_family(args, rep);
        if (prop == "C06")
            return run_c06(args, rep);
        if (prop == "C07")
            return run_c07(args, rep);
        if (prop == "C16")
            return run_c16(args, rep);
        if (prop == "C17")
            return run_c17(args, rep);
        std::cerr << "transport engine: unsupported property " << prop << "\n";
        return 2;
    }
    catch (std::exception const& e)
    {
        std::cerr << "transport engine: harness failure: " << e.what() << "\n";
        return 2;
    }
}
