#include "problem.hh"

#include <cmath>
#include <cstdio>
#include <cstdlib>
#include <fstream>
#include <functional>
#include <map>
#include <mutex>

#include "corecel/cont/Range.hh"
#include "corecel/data/AuxParamsRegistry.hh"
#include "corecel/data/CollectionStateStore.hh"
#include "corecel/io/Logger.hh"
#include "corecel/io/OutputRegistry.hh"
#include "corecel/sys/ActionRegistry.hh"
#include "corecel/Assert.hh"
#include "celeritas/Quantities.hh"
#include "celeritas/em/params/UrbanMscParams.hh"
#include "celeritas/em/params/WentzelOKVIParams.hh"
#include "celeritas/em/process/BremsstrahlungProcess.hh"
#include "celeritas/em/process/ComptonProcess.hh"
#include "celeritas/em/process/EIonizationProcess.hh"
#include "celeritas/em/process/EPlusAnnihilationProcess.hh"
#include "celeritas/em/process/GammaConversionProcess.hh"
#include "celeritas/em/process/PhotoelectricProcess.hh"
#include "celeritas/io/LivermorePEReader.hh"
#include "celeritas/field/UniformFieldData.hh"
#include "celeritas/geo/GeoData.hh"
#include "celeritas/geo/GeoMaterialParams.hh"
#include "celeritas/geo/GeoParams.hh"
#include "celeritas/geo/GeoTrackView.hh"
#include "celeritas/global/ActionInterface.hh"
#include "celeritas/global/CoreParams.hh"
#include "celeritas/global/alongstep/AlongStepGeneralLinearAction.hh"
#include "celeritas/global/alongstep/AlongStepUniformMscAction.hh"
#include "celeritas/io/ImportProcess.hh"
#include "celeritas/io/SeltzerBergerReader.hh"
#include "celeritas/mat/MaterialParams.hh"
#include "celeritas/phys/CutoffParams.hh"
#include "celeritas/phys/ImportedProcessAdapter.hh"
#include "celeritas/phys/PDGNumber.hh"
#include "celeritas/phys/ParticleParams.hh"
#include "celeritas/phys/PhysicsParams.hh"
#include "celeritas/random/RngParams.hh"
#include "celeritas/track/SimParams.hh"
#include "celeritas/track/StatusChecker.hh"
#include "celeritas/track/TrackInitParams.hh"

#include "branch_model.hh"
#include "probe.hh"

using namespace celeritas;
using units::MevEnergy;

namespace vt
{
//---------------------------------------------------------------------------//
std::string repo_root()
{
    char const* r = std::getenv("VERIF_REPO");
    return r && *r ? std::string(r) : std::string("/repo");
}

//---------------------------------------------------------------------------//
// JSON (de)serialisation of the spec: every field, so a replay file is self-contained
#define VT_FIELDS(X)                                                                          \
    X(seed) X(family) X(geometry) X(volume_to_mat) X(apply_post_interaction) X(compton)      \
    X(conversion) X(photoelectric) X(ioni) X(brems) X(annihilation) X(branch_absorb_below) X(brems_combined) X(brems_lpm)             \
    X(conversion_lpm) X(msc) X(fluct) X(xs_mod_amp) X(xs_scale) X(branch_max_secondaries)     \
    X(branch_kill_prob) X(branch_xs_barn) X(branch_eloss) X(branch_positrons) X(min_range)    \
    X(max_step_over_range) X(fixed_step_limiter) X(linear_loss_limit)                         \
    X(lowest_electron_energy) X(secondary_stack_factor) X(disable_integral_xs)                \
    X(msc_algorithm) X(along) X(num_track_slots) X(capacity) X(max_events) X(track_order)     \
    X(status_checker) X(action_times) X(looping_max_steps) X(looping_max_subthreshold_steps)  \
    X(looping_threshold_energy) X(rng_seed)

json ProblemSpec::to_json() const
{
    json j;
#define X(f) j[#f] = f;
    VT_FIELDS(X)
#undef X
    j["field"] = {field[0], field[1], field[2]};
    json ms = json::array();
    for (auto const& m : materials)
        ms.push_back({{"name", m.name}, {"z", m.z}, {"amu", m.amu},
                      {"number_density", m.number_density}, {"gas", m.gas}});
    j["materials"] = ms;
    json cs = json::array();
    for (auto const& c : cuts)
        cs.push_back({{"gamma", c.gamma}, {"electron", c.electron}, {"positron", c.positron}});
    j["cuts"] = cs;
    return j;
}

ProblemSpec ProblemSpec::from_json(json const& j)
{
    ProblemSpec s;
#define X(f) \
    if (j.contains(#f)) j.at(#f).get_to(s.f);
    VT_FIELDS(X)
#undef X
    if (j.contains("field"))
        for (int i = 0; i < 3; ++i)
            s.field[i] = j["field"][i].get<double>();
    s.materials.clear();
    for (auto const& m : j.at("materials"))
    {
        MaterialSpec ms;
        ms.name = m.at("name").get<std::string>();
        ms.z = m.at("z").get<int>();
        ms.amu = m.at("amu").get<double>();
        ms.number_density = m.at("number_density").get<double>();
        ms.gas = m.at("gas").get<bool>();
        s.materials.push_back(ms);
    }
    s.cuts.clear();
    for (auto const& c : j.at("cuts"))
    {
        CutSpec cs;
        cs.gamma = c.at("gamma").get<double>();
        cs.electron = c.at("electron").get<double>();
        cs.positron = c.at("positron").get<double>();
        s.cuts.push_back(cs);
    }
    return s;
}

//---------------------------------------------------------------------------//
namespace
{
struct GeoInfo
{
    char const* stem;
    int nvol;  // including exterior; checked at build time
};

// Geometries bundled with the repository (test/geocel/data/*.org.json)
std::vector<std::string> const& geometry_stems()
{
    static std::vector<std::string> const stems = {"two-boxes",
                                                   "three-spheres",
                                                   "four-steel-slabs",
                                                   "simple-cms",
                                                   "testem3-flat",
                                                   "testem15",
                                                   "lar-sphere",
                                                   "lead-box",
                                                   "one-steel-sphere",
                                                   "field-layers"};
    return stems;
}

std::vector<double> loggrid(double lo, double hi, int n)
{
    std::vector<double> r(n);
    for (int i = 0; i < n; ++i)
        r[i] = lo * std::pow(hi / lo, double(i) / (n - 1));
    r.front() = lo;
    r.back() = hi;
    return r;
}

ImportPhysicsVector pvec(std::vector<double> x, std::vector<double> y)
{
    ImportPhysicsVector v;
    v.vector_type = ImportPhysicsVectorType::log;
    v.x = std::move(x);
    v.y = std::move(y);
    return v;
}

// smooth positive random modulation exp(a*sin(b log E + c)), parameters from a seed
struct Modulation
{
    double a, b, c;
    Modulation(std::uint64_t seed, double amp)
    {
        verif::Rng r(seed);
        a = amp * r.uniform(0.2, 1.0);
        b = r.uniform(0.2, 1.2);
        c = r.uniform(0, 6.28);
    }
    double operator()(double e) const { return std::exp(a * std::sin(b * std::log(e) + c)); }
};

double const mc2 = 0.51099891;

}  // namespace

//---------------------------------------------------------------------------//
ProblemSpec draw_problem(std::uint64_t seed, std::string const& family, std::string const& hint)
{
    verif::Rng r(verif::mix_seed(seed, 0x9e0b1e5));
    ProblemSpec s;
    s.seed = seed;
    s.family = family;
    s.rng_seed = unsigned(r.u32());

    // geometry
    auto const& stems = geometry_stems();
    s.geometry = r.pick(stems);
    if (hint == "field" && r.coin(0.5))
        s.geometry = r.coin() ? "field-layers" : "simple-cms";
    else if (r.coin(0.25))
    {
        // generated nested geometry (orangeinp API: boxes/spheres/cylinders/cones/prisms,
        // translated and rotated daughter universes up to depth 3)
        std::string key = "gen:" + std::to_string(r.integer(0, 999999));
        try
        {
            if (load_geometry(key))
                s.geometry = key;
        }
        catch (std::exception const&)
        {
            // construction refused by the library: keep the bundled geometry
        }
    }
    auto geo = load_geometry(s.geometry);
    int nvol = int(geo->num_volumes());

    // materials: 1-4, one element each (relabelled Z=29 data for SB)
    int nmat = int(r.integer(1, 4));
    bool low_density_world = r.coin(0.3);
    for (int m = 0; m < nmat; ++m)
    {
        MaterialSpec ms;
        ms.z = int(r.integer(1, 92));
        ms.amu = 2.2 * ms.z + r.uniform(0, 3);
        ms.name = "mat" + std::to_string(m) + "_Z" + std::to_string(ms.z);
        ms.gas = (m == nmat - 1 && low_density_world) || r.coin(0.15);
        ms.number_density = ms.gas ? r.loguniform(1e17, 1e20) : r.loguniform(1e22, 1.2e23);
        s.materials.push_back(ms);
    }
    s.volume_to_mat.resize(nvol);
    for (int v = 0; v < nvol; ++v)
    {
        auto const& lab = geo->id_to_label(VolumeId(v));
        if (lab.name == "[EXTERIOR]")
            s.volume_to_mat[v] = -1;
        else
            s.volume_to_mat[v] = int(r.integer(0, nmat - 1));
    }

    // production cuts per material
    s.apply_post_interaction = r.coin(0.6);
    for (int m = 0; m < nmat; ++m)
    {
        CutSpec c;
        c.gamma = r.loguniform(1e-3, 2.0);
        c.electron = r.loguniform(1e-3, 5.0);
        c.positron = r.coin() ? c.electron : r.loguniform(1e-3, 5.0);
        s.cuts.push_back(c);
    }

    if (family == "synth")
    {
        s.compton = r.coin(0.9);
        s.conversion = r.coin(0.8);
        s.photoelectric = true;  // absorbs low-energy photons (otherwise they Compton-scatter ~forever)
        s.ioni = true;  // the single energy-loss process group for e-/e+
        s.brems = r.coin(0.85);
        s.annihilation = true;  // see DESIGN C01 note
        if (!s.compton && !s.conversion)
            s.compton = true;
        s.brems_combined = r.coin(0.3);
        s.brems_lpm = r.coin(0.7);
        s.conversion_lpm = r.coin(0.7);
        s.msc = r.coin(0.6);
        s.fluct = r.coin(0.6);
        s.xs_mod_amp = r.uniform(0, 0.5);
        s.xs_scale = r.loguniform(0.3, 3.0);
    }
    else
    {
        s.msc = false;
        s.fluct = r.coin(0.3);
        s.branch_max_secondaries = int(r.integer(0, 6));
        s.branch_kill_prob = r.uniform(0.05, 0.9);
        s.branch_xs_barn = r.loguniform(0.5, 50);
        s.branch_eloss = r.coin(0.5) ? r.loguniform(1e-24, 1e-22) : 0.0;
        s.branch_positrons = r.coin(0.5);
        s.branch_absorb_below = r.loguniform(2e-3, 0.2);
    }

    // physics options, inside the validated ranges
    s.min_range = r.loguniform(1e-3, 1.0);
    s.max_step_over_range = r.uniform(0.05, 0.9);
    s.fixed_step_limiter = r.coin(0.2) ? r.loguniform(0.3, 30) : 0.0;
    s.linear_loss_limit = r.pick(std::vector<double>{0.001, 0.01, 0.01, 0.05, 0.2});
    s.lowest_electron_energy = r.loguniform(2e-4, 1e-2);
    s.secondary_stack_factor = r.pick(std::vector<double>{2, 3, 8});
    // integral approach disabled only in the dedicated family (known finding, DESIGN section 7)
    s.disable_integral_xs = (hint == "integral-off");
    s.msc_algorithm = int(r.integer(0, 3));

    // along-step
    double pfield = (hint == "field") ? 1.0 : 0.35;
    if (r.coin(pfield))
    {
        s.along = "uniform";
        double b = r.loguniform(1e-3, 10);
        double d[3];
        r.unit3(d);
        if (r.coin(0.3))
        {
            d[0] = d[1] = 0;
            d[2] = 1;
        }
        for (int i = 0; i < 3; ++i)
            s.field[i] = b * d[i];
    }
    else
    {
        s.along = "linear";
    }

    // run configuration
    std::vector<int> slot_choices = {1, 1, 2, 3, 4, 5, 8, 13, 16, 32, 64, 128, 256};
    s.num_track_slots = r.pick(slot_choices);
    if (hint == "tiny-slots")
        s.num_track_slots = int(r.integer(1, 4));
    s.capacity = 1 << 16;
    s.max_events = 64;
    s.track_order = int(r.integer(0, 7));
    s.status_checker = r.coin(0.3);
    s.action_times = r.coin(0.2);
    s.looping_max_steps = int(r.integer(5, 100));
    s.looping_max_subthreshold_steps = int(r.integer(2, 10));
    s.looping_threshold_energy = r.loguniform(0.1, 250);
    return s;
}

//---------------------------------------------------------------------------//
namespace
{
// Build the synthetic imported processes for the synth family
std::vector<ImportProcess> make_synth_processes(ProblemSpec const& s)
{
    int const nmat = int(s.materials.size());
    int const nlo = 43, nhi = 43;  // 7 bins per decade, Geant4's layout
    auto elo = loggrid(1e-4, 1e2, nlo);
    auto ehi = loggrid(1e2, 1e8, nhi);
    auto eall = loggrid(1e-4, 1e8, 85);
    double const nref = 8.5e22;

    // xs tables: `f` shape at reference density, `thr(m)` threshold energy below which the
    // cross section must vanish for material m (production cuts): a knot is non-zero only
    // if the PREVIOUS knot is already >= threshold, so the interpolated value is zero for
    // every E <= threshold.
    auto make_xs = [&](std::function<double(double)> f, std::function<double(int)> thr,
                       std::uint64_t modseed) {
        ImportPhysicsTable lam, lamp;
        lam.table_type = ImportTableType::lambda;
        lam.x_units = ImportUnits::mev;
        lam.y_units = ImportUnits::len_inv;
        lamp.table_type = ImportTableType::lambda_prim;
        lamp.x_units = ImportUnits::mev;
        lamp.y_units = ImportUnits::len_mev_inv;
        for (int m = 0; m < nmat; ++m)
        {
            Modulation mod(verif::mix_seed(s.seed, modseed * 131 + m), s.xs_mod_amp);
            double dens = s.materials[m].number_density / nref * s.xs_scale
                          * (0.5 + s.materials[m].z / 58.0);
            double t = thr(m);
            std::vector<double> y(nlo), yp(nhi);
            for (int i = 0; i < nlo; ++i)
            {
                bool on = (i > 0 ? elo[i - 1] : 0.0) >= t;
                y[i] = on ? dens * f(elo[i]) * mod(elo[i]) : 0.0;
            }
            for (int i = 0; i < nhi; ++i)
            {
                double prev = i > 0 ? ehi[i - 1] : elo[nlo - 2];
                bool on = prev >= t;
                yp[i] = on ? dens * f(ehi[i]) * mod(ehi[i]) * ehi[i] : 0.0;
            }
            lam.physics_vectors.push_back(pvec(elo, y));
            lamp.physics_vectors.push_back(pvec(ehi, yp));
        }
        return std::vector<ImportPhysicsTable>{lam, lamp};
    };
    auto make_model = [&](ImportModelClass c, double lo, double hi) {
        ImportModel m;
        m.model_class = c;
        m.materials.resize(nmat);
        for (auto& mm : m.materials)
            mm.energy = {lo, hi};
        return m;
    };

    std::vector<ImportProcess> procs;
    if (s.compton)
    {
        ImportProcess p;
        p.particle_pdg = 22;
        p.secondary_pdg = 11;
        p.process_type = ImportProcessType::electromagnetic;
        p.process_class = ImportProcessClass::compton;
        p.models.push_back(make_model(ImportModelClass::klein_nishina, 1e-4, 1e8));
        p.tables = make_xs([](double e) { return 0.5 / (1 + e); }, [](int) { return 0.0; }, 1);
        procs.push_back(p);
    }
    if (s.conversion)
    {
        ImportProcess p;
        p.particle_pdg = 22;
        p.secondary_pdg = 11;
        p.process_type = ImportProcessType::electromagnetic;
        p.process_class = ImportProcessClass::conversion;
        p.models.push_back(make_model(ImportModelClass::bethe_heitler_lpm, 2 * mc2, 1e8));
        p.tables = make_xs(
            [](double e) {
                double l = std::log(std::max(e, 1.03) / 1.022);
                return 0.3 * l / (1 + l) + 1e-6;
            },
            [](int) { return 2 * mc2 * 1.0000001; },
            2);
        procs.push_back(p);
    }
    if (s.photoelectric)
    {
        ImportProcess p;
        p.particle_pdg = 22;
        p.secondary_pdg = 11;
        p.process_type = ImportProcessType::electromagnetic;
        p.process_class = ImportProcessClass::photoelectric;
        p.models.push_back(make_model(ImportModelClass::livermore_photoelectric, 1e-4, 1e8));
        p.tables = make_xs([](double e) { return std::min(1e4, 5e-5 / (e * e * e)); },
                           [](int) { return 0.0; },
                           7);
        procs.push_back(p);
    }
    // Energy loss: Bethe-like dE/dx in the reference material [MeV/cm]
    auto dedx_f = [](double e) { return 2.0 * (1 + 0.5 / (e + 0.01)); };
    if (s.ioni)
    {
        for (int pdgc : {11, -11})
        {
            ImportProcess p;
            p.particle_pdg = pdgc;
            p.secondary_pdg = 11;
            p.process_type = ImportProcessType::electromagnetic;
            p.process_class = ImportProcessClass::e_ioni;
            p.models.push_back(make_model(ImportModelClass::moller_bhabha, 1e-4, 1e8));
            // Moller: secondaries possible only above 2*cut; Bhabha above cut
            auto thr = [&s, pdgc](int m) {
                return (pdgc == 11 ? 2.0 : 1.0) * s.cuts[m].electron * 1.0000001;
            };
            p.tables = make_xs(
                [](double e) { return 0.8 * (0.2 + 1 / (1 + e)); }, thr, pdgc == 11 ? 3 : 4);
            ImportPhysicsTable dedx, rng;
            dedx.table_type = ImportTableType::dedx;
            dedx.x_units = ImportUnits::mev;
            dedx.y_units = ImportUnits::mev_per_len;
            rng.table_type = ImportTableType::range;
            rng.x_units = ImportUnits::mev;
            rng.y_units = ImportUnits::len;
            for (int m = 0; m < nmat; ++m)
            {
                Modulation mod(verif::mix_seed(s.seed, 977 + m + (pdgc > 0 ? 0 : 50)), 0.5 * s.xs_mod_amp);
                double dens = s.materials[m].number_density / nref * (0.5 + s.materials[m].z / 58.0);
                std::vector<double> y(eall.size()), rr(eall.size());
                for (std::size_t i = 0; i < eall.size(); ++i)
                    y[i] = dens * dedx_f(eall[i]) * mod(eall[i]);
                // range consistent with dE/dx: sqrt(E) scaling below the table, then
                // trapezoid of 1/(dE/dx)
                rr[0] = 2 * eall[0] / y[0];
                for (std::size_t i = 1; i < eall.size(); ++i)
                    rr[i] = rr[i - 1] + 0.5 * (eall[i] - eall[i - 1]) * (1 / y[i] + 1 / y[i - 1]);
                dedx.physics_vectors.push_back(pvec(eall, y));
                rng.physics_vectors.push_back(pvec(eall, rr));
            }
            p.tables.push_back(dedx);
            p.tables.push_back(rng);
            procs.push_back(p);
        }
    }
    if (s.brems)
    {
        for (int pdgc : {11, -11})
        {
            ImportProcess p;
            p.particle_pdg = pdgc;
            p.secondary_pdg = 22;
            p.process_type = ImportProcessType::electromagnetic;
            p.process_class = ImportProcessClass::e_brems;
            p.models.push_back(make_model(ImportModelClass::e_brems_sb, 1e-4, 1e3));
            p.models.push_back(make_model(ImportModelClass::e_brems_lpm, 1e3, 1e8));
            auto thr = [&s](int m) { return s.cuts[m].gamma * 1.0000001; };
            p.tables = make_xs(
                [](double e) {
                    double l = std::log1p(e / 0.02);
                    return 0.4 * l / (2 + l);
                },
                thr,
                pdgc == 11 ? 5 : 6);
            procs.push_back(p);
        }
    }
    return procs;
}

std::vector<ImportMscModel> make_synth_msc(ProblemSpec const& s)
{
    int const nmat = int(s.materials.size());
    auto eall = loggrid(1e-4, 1e8, 85);
    double const nref = 8.5e22;
    std::vector<ImportMscModel> mscs;
    for (int pdgc : {11, -11})
    {
        ImportMscModel mm;
        mm.particle_pdg = pdgc;
        mm.model_class = ImportModelClass::urban_msc;
        mm.xs_table.table_type = ImportTableType::msc_xs;
        mm.xs_table.x_units = ImportUnits::mev;
        mm.xs_table.y_units = ImportUnits::mev_sq_per_len;
        for (int m = 0; m < nmat; ++m)
        {
            Modulation mod(verif::mix_seed(s.seed, 555 + m), 0.5 * s.xs_mod_amp);
            double dens = s.materials[m].number_density / nref * (0.3 + s.materials[m].z / 29.0);
            std::vector<double> y(eall.size());
            for (std::size_t i = 0; i < eall.size(); ++i)
                y[i] = dens * 50.0 * (1 + 0.1 * std::log1p(eall[i])) * mod(eall[i]);  // xs * E^2
            mm.xs_table.physics_vectors.push_back(pvec(eall, y));
        }
        mscs.push_back(mm);
    }
    return mscs;
}
}  // namespace

//---------------------------------------------------------------------------//
std::shared_ptr<Problem> build_problem(ProblemSpec const& s, BuildOptions const& opts)
{
    using namespace units;
    auto prob = std::make_shared<Problem>();
    prob->spec = s;

    auto geo = load_geometry(s.geometry);
    int const nmat = int(s.materials.size());
    prob->num_volumes = int(geo->num_volumes());
    CELER_VALIDATE(int(s.volume_to_mat.size()) == prob->num_volumes,
                   << "volume_to_mat size mismatch");
    for (int v = 0; v < prob->num_volumes; ++v)
        prob->volume_names.push_back(geo->id_to_label(VolumeId(v)).name);

    MaterialParams::Input mi;
    for (int m = 0; m < nmat; ++m)
    {
        auto const& ms = s.materials[m];
        mi.elements.push_back({AtomicNumber{ms.z}, AmuMass{ms.amu}, {}, Label{"el" + std::to_string(m)}});
        mi.materials.push_back({ms.number_density,
                                293.0,
                                ms.gas ? MatterState::gas : MatterState::solid,
                                {{ElementId(m), 1.0}},
                                Label{ms.name}});
    }
    auto mats = std::make_shared<MaterialParams>(std::move(mi));

    GeoMaterialParams::Input gi;
    gi.geometry = geo;
    gi.materials = mats;
    for (int v = 0; v < prob->num_volumes; ++v)
    {
        gi.volume_to_mat.push_back(s.volume_to_mat[v] < 0 ? MaterialId{} : MaterialId(s.volume_to_mat[v]));
    }
    auto geomat = std::make_shared<GeoMaterialParams>(std::move(gi));

    ParticleParams::Input pi;
    using constants::stable_decay_constant;
    pi.push_back({"gamma", pdg::gamma(), zero_quantity(), zero_quantity(), stable_decay_constant});
    pi.push_back({"electron", pdg::electron(), MevMass{mc2}, ElementaryCharge{-1}, stable_decay_constant});
    pi.push_back({"positron", pdg::positron(), MevMass{mc2}, ElementaryCharge{1}, stable_decay_constant});
    auto particles = std::make_shared<ParticleParams>(std::move(pi));
    prob->particles = particles;
    prob->gamma = particles->find(pdg::gamma());
    prob->electron = particles->find(pdg::electron());
    prob->positron = particles->find(pdg::positron());
    prob->mass = {0.0, mc2, mc2};
    prob->antiparticle = {false, false, true};
    prob->charge = {0, -1, 1};

    CutoffParams::Input ci;
    ci.materials = mats;
    ci.particles = particles;
    {
        CutoffParams::MaterialCutoffs g, e, p;
        for (int m = 0; m < nmat; ++m)
        {
            g.push_back({MevEnergy{s.cuts[m].gamma}, 0.07});
            e.push_back({MevEnergy{s.cuts[m].electron}, 0.07});
            p.push_back({MevEnergy{s.cuts[m].positron}, 0.07});
        }
        ci.cutoffs = {{pdg::gamma(), g}, {pdg::electron(), e}, {pdg::positron(), p}};
    }
    ci.apply_post_interaction = s.apply_post_interaction;
    auto cutoffs = std::make_shared<CutoffParams>(ci);

    auto action_reg = std::make_shared<ActionRegistry>();
    auto aux_reg = std::make_shared<AuxParamsRegistry>();
    auto out_reg = std::make_shared<OutputRegistry>();

    PhysicsParams::Input phi;
    phi.particles = particles;
    phi.materials = mats;
    phi.action_registry = action_reg.get();
    phi.options.min_range = s.min_range;
    phi.options.max_step_over_range = s.max_step_over_range;
    phi.options.fixed_step_limiter = s.fixed_step_limiter;
    phi.options.linear_loss_limit = s.linear_loss_limit;
    phi.options.lowest_electron_energy = MevEnergy{s.lowest_electron_energy};
    phi.options.secondary_stack_factor = s.secondary_stack_factor;
    phi.options.disable_integral_xs = s.disable_integral_xs;
    phi.options.step_limit_algorithm = static_cast<MscStepLimitAlgorithm>(s.msc_algorithm);

    std::shared_ptr<UrbanMscParams const> msc;
    if (s.family == "synth")
    {
        auto imported = std::make_shared<ImportedProcesses>(make_synth_processes(s));
        if (s.compton)
            phi.processes.push_back(std::make_shared<ComptonProcess>(particles, imported));
        if (s.conversion)
        {
            GammaConversionProcess::Options o;
            o.enable_lpm = s.conversion_lpm;
            phi.processes.push_back(std::make_shared<GammaConversionProcess>(particles, imported, o));
        }
        if (s.photoelectric)
        {
            // Livermore data ships only for Z=19: serve it relabelled for any Z
            LivermorePEReader reader((repo_root() + "/test/celeritas/data/").c_str());
            auto relabel = [reader](AtomicNumber) { return reader(AtomicNumber{19}); };
            phi.processes.push_back(std::make_shared<PhotoelectricProcess>(particles, mats, imported, relabel));
        }
        if (s.ioni)
            phi.processes.push_back(
                std::make_shared<EIonizationProcess>(particles, imported, EIonizationProcess::Options{}));
        if (s.brems)
        {
            BremsstrahlungProcess::Options o;
            o.combined_model = s.brems_combined;
            o.enable_lpm = s.brems_lpm;
            // Seltzer-Berger data ships only for Z=29: serve it relabelled for any Z
            SeltzerBergerReader reader((repo_root() + "/test/celeritas/data/").c_str());
            auto relabel = [reader](AtomicNumber) { return reader(AtomicNumber{29}); };
            phi.processes.push_back(
                std::make_shared<BremsstrahlungProcess>(particles, mats, imported, relabel, o));
        }
        if (s.annihilation)
            phi.processes.push_back(
                std::make_shared<EPlusAnnihilationProcess>(particles, EPlusAnnihilationProcess::Options{}));
        if (s.msc)
        {
            auto mscs = make_synth_msc(s);
            msc = std::make_shared<UrbanMscParams>(*particles, *mats, mscs);
        }
    }
    else
    {
        BranchProcess::Input bi;
        bi.materials = mats;
        bi.particles = particles;
        bi.max_secondaries = s.branch_max_secondaries;
        bi.kill_prob = s.branch_kill_prob;
        bi.xs_barn = s.branch_xs_barn;
        bi.eloss = s.branch_eloss;
        bi.positrons = s.branch_positrons;
        bi.absorb_below = s.branch_absorb_below;
        bi.emin = 1e-4;
        bi.emax = 1e8;
        for (auto pid : {prob->gamma, prob->electron, prob->positron})
        {
            bi.particle = pid;
            bi.label = "branch-" + std::to_string(pid.get());
            phi.processes.push_back(std::make_shared<BranchProcess>(bi));
        }
        // positrons need an at-rest process for the ledger to close (DESIGN C01 note)
        phi.processes.push_back(
            std::make_shared<EPlusAnnihilationProcess>(particles, EPlusAnnihilationProcess::Options{}));
    }
    auto physics = std::make_shared<PhysicsParams>(std::move(phi));

    std::shared_ptr<CoreStepActionInterface const> along;
    if (s.along == "uniform")
    {
        UniformFieldParams fp;
        fp.field = {s.field[0] * units::tesla, s.field[1] * units::tesla, s.field[2] * units::tesla};
        along = AlongStepUniformMscAction::from_params(action_reg->next_id(), *mats, *particles, fp, msc, s.fluct);
    }
    else
    {
        along = AlongStepGeneralLinearAction::from_params(action_reg->next_id(), *mats, *particles, msc, s.fluct);
    }
    action_reg->insert(std::const_pointer_cast<CoreStepActionInterface>(along));

    CoreParams::Input in;
    in.geometry = geo;
    in.material = mats;
    in.geomaterial = geomat;
    in.particle = particles;
    in.cutoff = cutoffs;
    in.physics = physics;
    in.rng = std::make_shared<RngParams>(s.rng_seed);
    {
        SimParams::Input si;
        si.particles = particles;
        LoopingThreshold lt;
        lt.max_steps = s.looping_max_steps;
        lt.max_subthreshold_steps = s.looping_max_subthreshold_steps;
        lt.threshold_energy = MevEnergy{s.looping_threshold_energy};
        si.looping = {{pdg::electron(), lt}, {pdg::positron(), lt}};
        in.sim = std::make_shared<SimParams>(si);
    }
    {
        TrackInitParams::Input ti;
        ti.capacity = s.capacity;
        ti.max_events = s.max_events;
        ti.track_order = static_cast<TrackOrder>(s.track_order);
        in.init = std::make_shared<TrackInitParams>(ti);
    }
    in.wentzel = std::make_shared<WentzelOKVIParams>(mats, WentzelOKVIParams::Options{});
    in.action_reg = action_reg;
    in.output_reg = out_reg;
    in.aux_reg = aux_reg;
    in.max_streams = opts.max_streams;

    if (s.status_checker)
    {
        auto sc = std::make_shared<StatusChecker>(action_reg->next_id(), aux_reg->next_id());
        action_reg->insert(sc);
        aux_reg->insert(sc);
    }

    prob->core = std::make_shared<CoreParams>(std::move(in));

    prob->locator = load_locator(s.geometry);

    if (opts.customize)
        opts.customize(*prob);

    if (opts.with_probes)
        prob->probes = insert_probes(*prob->core, opts.max_streams);

    for (auto aid : range(action_reg->num_actions()))
        prob->action_labels.push_back(std::string(action_reg->id_to_label(ActionId(aid))));

    {
        auto const& ps = physics->host_ref().scalars;
        auto const& cs = prob->core->host_ref().scalars;
        auto& ids = prob->ids;
        ids.discrete = int(ps.discrete_action().get());
        ids.range = int(ps.range_action().get());
        ids.msc_range = int(ps.msc_action().get());
        ids.integral_rejected = int(ps.integral_rejection_action().get());
        ids.failure = int(ps.failure_action().get());
        ids.model_begin = int(ps.model_to_action);
        ids.model_end = int(ps.model_to_action + ps.num_models);
        if (auto a = action_reg->find_action("physics-fixed-step"))
            ids.fixed_step = int(a.get());
        ids.boundary = int(cs.boundary_action.get());
        ids.tracking_cut = int(cs.tracking_cut_action.get());
        ids.propagation_limit = int(cs.propagation_limit_action.get());
        ids.along_user = int(cs.along_step_user_action.get());
        ids.along_neutral = int(cs.along_step_neutral_action.get());
    }

    // hash of the physics reals pool: two builds of the same spec must give identical tables
    {
        auto const& reals = physics->host_ref().reals;
        std::uint64_t h = 1469598103934665603ull;
        for (auto i : range(reals.size()))
        {
            h ^= verif::bits_of(reals[ItemId<real_type>(i)]);
            h *= 1099511628211ull;
        }
        prob->physics_hash = h;
    }
    return prob;
}

//---------------------------------------------------------------------------//
std::vector<std::vector<Primary>>
draw_primaries(Problem const& prob, verif::Rng& r, int num_events, int first_event, int max_per_event, double emax)
{
    auto const& geo = *prob.core->geometry();
    auto const& bb = geo.bbox();
    CollectionStateStore<GeoStateData, MemSpace::host> gstate(geo.host_ref(), 1);
    double lo[3], hi[3];
    for (int i = 0; i < 3; ++i)
    {
        lo[i] = std::max<double>(bb.lower()[i], -1e4);
        hi[i] = std::min<double>(bb.upper()[i], 1e4);
    }
    double scale = std::max({hi[0] - lo[0], hi[1] - lo[1], hi[2] - lo[2]});
    std::vector<std::vector<Primary>> result;
    for (int ev = 0; ev < num_events; ++ev)
    {
        std::vector<Primary> prims;
        int n = int(r.integer(1, max_per_event));
        // cluster primaries near a vertex half of the time
        double vtx[3] = {0, 0, 0};
        bool have_vtx = false;  // set once a primary of this event has been placed
        bool cluster = r.coin(0.5);
        for (int k = 0; k < n; ++k)
        {
            Primary p;
            p.particle_id = ParticleId(size_type(r.integer(0, 2)));
            p.energy = MevEnergy{r.loguniform(5e-4, emax)};
            p.event_id = EventId(first_event + ev);
            p.time = r.coin(0.8) ? 0.0 : r.uniform(0, 1e-9);
            double d[3];
            r.unit3(d);
            if (r.coin(0.15))
            {
                // axis-aligned
                int ax = int(r.integer(0, 2));
                double sg = r.coin() ? 1.0 : -1.0;
                d[0] = d[1] = d[2] = 0;
                d[ax] = sg;
            }
            p.direction = {d[0], d[1], d[2]};
            // position: rejection sample inside a material volume, away from surfaces
            bool ok = false;
            for (int attempt = 0; attempt < 200 && !ok; ++attempt)
            {
                double x[3];
                if (cluster && have_vtx)
                {
                    for (int i = 0; i < 3; ++i)
                        x[i] = vtx[i];
                }
                else
                {
                    // bias towards the centre where the interesting volumes are
                    double shrink = r.coin(0.5) ? 1.0 : r.loguniform(1e-3, 1.0);
                    for (int i = 0; i < 3; ++i)
                    {
                        double c = 0.5 * (lo[i] + hi[i]);
                        x[i] = c + shrink * (r.uniform(lo[i], hi[i]) - c);
                    }
                }
                int vol = -1;
                double safety = 0;
                try
                {
                    GeoTrackView g(geo.host_ref(), gstate.ref(), TrackSlotId{0});
                    g = GeoTrackInitializer{{x[0], x[1], x[2]}, {d[0], d[1], d[2]}};
                    if (g.failed() || g.is_outside())
                        continue;
                    vol = int(g.volume_id().get());
                    if (prob.spec.volume_to_mat[vol] < 0)
                        continue;
                    safety = g.find_safety();
                }
                catch (celeritas::DebugError const&)
                {
                    // library debug assertion while placing a candidate vertex (debug variant
                    // only, e.g. the safety on a cylinder axis): not a verdict of any transport
                    // property (C11's), take another candidate
                    if (std::getenv("VERIF_DEBUG"))
                        std::fprintf(stderr, "draw_primaries: debug assertion at (%a, %a, %a)\n", x[0], x[1], x[2]);
                    continue;
                }
                if (!(safety > 1e-6 * scale))
                    continue;
                p.position = {x[0], x[1], x[2]};
                if (!have_vtx)
                {
                    for (int i = 0; i < 3; ++i)
                        vtx[i] = x[i];
                    have_vtx = true;
                }
                ok = true;
            }
            if (ok)
                prims.push_back(p);
        }
        result.push_back(std::move(prims));
    }
    return result;
}

}  // namespace vt
