// Online monitors over the probe log of one stepper/state: reference model of the track
// population (C02), energy ledgers (C01), step-history relations (C05), storage-starvation
// semantics (C16).  One StateMonitor per CoreState; it may see several events in flight.
#pragma once

#include <map>
#include <set>
#include <string>
#include <tuple>
#include <unordered_map>
#include <vector>

#include "celeritas/global/Stepper.hh"
#include "celeritas/phys/Primary.hh"

#include "probe.hh"
#include "problem.hh"
#include "verif_common.hh"

namespace vt
{
struct MonitorOptions
{
    bool c01 = true;  // energy ledgers
    bool c02 = true;  // track population model
    bool c05 = true;  // step-history relations
    bool c16 = false;  // starvation semantics (failed interactions allowed)
    bool expect_no_failure = true;  // ample secondary storage: a physics-failure is reported
    std::string report_prefix;  // property whose violations are reported ("C01"...); others observed
};

struct TrackState
{
    int event = -1, id = -1, parent = -1, particle = -1, slot = -1;
    double e_birth = 0, a_birth = 0;
    long double dep = 0, children_a = 0;
    double a_exit = 0;
    bool exited = false, finished = false, errored = false;
    unsigned steps = 0;
    bool have_post = false;
    double pos[3] = {0, 0, 0}, dir[3] = {0, 0, 0}, e = 0, time = 0;
    int vol = -1;
    bool was_failure = false;  // last step ended with physics-failure
    int zero_steps = 0;
    unsigned birth_iter = 0;
};

struct BirthKey
{
    int event, parent, particle;
    std::uint64_t e, t, p[3], d[3];
    bool operator<(BirthKey const& o) const
    {
        return std::tie(event, parent, particle, e, t, p[0], p[1], p[2], d[0], d[1], d[2])
               < std::tie(o.event, o.parent, o.particle, o.e, o.t, o.p[0], o.p[1], o.p[2], o.d[0], o.d[1], o.d[2]);
    }
};

class StateMonitor
{
  public:
    StateMonitor(Problem const& prob, verif::Report& rep, MonitorOptions opts, json context);

    // Register primaries handed to the stepper in the next call
    void add_primaries(celeritas::Span<celeritas::Primary const> prims);

    // Consume the probe record of one stepper call.  `state` gives read access to the
    // init data (vacancies, initializers) for the reference-model comparison.
    void on_iteration(IterRec const& it,
                      celeritas::StepperResult const& result,
                      celeritas::CoreStateCounters const& counters,
                      celeritas::Stepper<celeritas::MemSpace::host>::StateRef const& state,
                      std::size_t primaries_in_call);

    // queued == alive == 0 reached: closing checks (pending births empty, ledgers)
    void on_drained();

    // The state was reset (aborted event): forget everything in flight
    void on_reset();

    // a non-termination witness was seen (zero-length step run, looping survivor)
    bool nontermination_witness() const { return nonterm_; }
    // a track reached an unphysical state (negative / non-finite energy): the run is stopped
    bool fatal() const { return fatal_; }
    std::uint64_t iterations() const { return iter_; }
    std::uint64_t steps() const { return steps_; }
    std::uint64_t tracks() const { return tracks_total_; }
    std::uint64_t violations() const { return nviol_; }
    std::uint64_t failures_seen() const { return failures_; }
    std::set<std::string> const& cells() const { return cells_; }
    json sample_trace() const { return trace_; }

    // per-event ledger summary (event -> {primaries A, deposit, exit})
    struct EventLedger
    {
        long double a_in = 0, dep = 0, a_exit = 0;
        std::uint64_t steps = 0, tracks = 0;
        bool complete = false;
    };
    std::map<int, EventLedger> const& events() const { return events_; }

  private:
    void fail(std::string const& prop, std::string const& monitor, std::string const& site,
              std::string const& detail, json extra);
    double avail(int particle, double e) const
    {
        return e + ((particle >= 0 && prob_.antiparticle[particle]) ? 2 * prob_.mass[particle] : 0.0);
    }
    std::string action_label(int a) const
    {
        return (a >= 0 && a < int(prob_.action_labels.size())) ? prob_.action_labels[a] : "none";
    }
    static std::uint64_t key(int ev, int tr) { return (std::uint64_t(std::uint32_t(ev)) << 32) | std::uint32_t(tr); }

    Problem const& prob_;
    verif::Report& rep_;
    MonitorOptions opts_;
    json context_;
    std::unordered_map<std::uint64_t, TrackState> tracks_;
    std::map<BirthKey, int> pending_;
    std::size_t pending_count_ = 0;
    std::vector<std::int64_t> slot_occupant_;  // key of live occupant or -1
    std::map<int, EventLedger> events_;
    std::set<std::string> cells_;
    std::uint64_t iter_ = 0, steps_ = 0, tracks_total_ = 0, nviol_ = 0, failures_ = 0;
    std::size_t live_ = 0;
    bool nonterm_ = false, fatal_ = false;
    json trace_ = json::array();
};

}  // namespace vt
