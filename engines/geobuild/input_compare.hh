// Engine `geobuild` (C19): own deep comparator over the OrangeInput struct tree, feature
// signature of an input, and structure-level fuzzing of inputs.
//
// Equality is bit-exact on every floating-point datum (surface data, transform data,
// bounding boxes, grids, tolerances) and exact on every discrete field.  Documented
// normalisations that are compared semantically (and only these):
//   N1  any null bounding box (lower > upper on some axis) == any other null bounding box:
//       JSON stores "null" for it (BoundingBoxIO.json.cc: "Special case: null bounding box")
//   N2  in a rect array, Translation{0,0,0} == NoTransformation: the file format stores a
//       flat "translations" list and the reader maps a zero translation to "no
//       transformation" (OrangeInputIO.json.cc make_transform); both move no point.
#pragma once

#include <cstring>
#include <string>
#include <variant>
#include <vector>

#include "orange/OrangeInput.hh"
#include "orange/surf/VariantSurface.hh"
#include "orange/transform/VariantTransform.hh"

#include "verif_common.hh"

namespace gb
{
using verif::json;
using celeritas::OrangeInput;
using celeritas::RectArrayInput;
using celeritas::UnitInput;
using celeritas::VolumeInput;

struct FieldDiff
{
    std::string group;  // field group (sub-check)
    std::string field;  // stable field name
    std::string where;  // universe / volume index etc. (witness only)
    std::string detail;
};

inline bool same_bits(double a, double b)
{
    return std::memcmp(&a, &b, sizeof a) == 0;
}

template<class A, class B>
inline bool same_bits_seq(A const& a, B const& b)
{
    if (a.size() != b.size())
        return false;
    auto ib = b.begin();
    for (auto ia = a.begin(); ia != a.end(); ++ia, ++ib)
        if (!same_bits(double(*ia), double(*ib)))
            return false;
    return true;
}

template<class A>
inline std::string hex_seq(A const& a)
{
    std::string s = "[";
    for (auto v : a)
        s += verif::hexd(double(v)) + " ";
    return s + "]";
}

inline std::string bbox_str(celeritas::BBox const& b)
{
    return "{" + hex_seq(b.lower()) + "," + hex_seq(b.upper()) + "}";
}

inline bool same_bbox(celeritas::BBox const& a, celeritas::BBox const& b)
{
    if (!a && !b)
        return true;  // N1
    return same_bits_seq(a.lower(), b.lower()) && same_bits_seq(a.upper(), b.upper());
}

inline std::vector<double> surface_data(celeritas::VariantSurface const& s)
{
    return std::visit(
        [](auto const& surf) {
            auto d = surf.data();
            return std::vector<double>(d.begin(), d.end());
        },
        s);
}
inline std::vector<double> transform_data(celeritas::VariantTransform const& t)
{
    return std::visit(
        [](auto const& tr) {
            auto d = tr.data();
            return std::vector<double>(d.begin(), d.end());
        },
        t);
}
inline char const* surface_type_name(celeritas::VariantSurface const& s)
{
    return std::visit([](auto const& surf) { return celeritas::to_cstring(surf.surface_type()); }, s);
}

class InputComparator
{
  public:
    std::vector<FieldDiff> diffs;

    void compare(OrangeInput const& a, OrangeInput const& b)
    {
        if (!same_bits(a.tol.rel, b.tol.rel))
            add("tolerances", "tol.rel", "", verif::hexd(a.tol.rel) + " vs " + verif::hexd(b.tol.rel));
        if (!same_bits(a.tol.abs, b.tol.abs))
            add("tolerances", "tol.abs", "", verif::hexd(a.tol.abs) + " vs " + verif::hexd(b.tol.abs));
        if (a.universes.size() != b.universes.size())
        {
            add("structure", "universes.size", "",
                std::to_string(a.universes.size()) + " vs " + std::to_string(b.universes.size()));
            return;
        }
        for (std::size_t u = 0; u < a.universes.size(); ++u)
        {
            std::string w = "universe " + std::to_string(u);
            if (a.universes[u].index() != b.universes[u].index())
            {
                add("structure", "universe.type", w, "variant index differs");
                continue;
            }
            if (auto const* ua = std::get_if<UnitInput>(&a.universes[u]))
                unit(*ua, std::get<UnitInput>(b.universes[u]), w);
            else
                rect(std::get<RectArrayInput>(a.universes[u]), std::get<RectArrayInput>(b.universes[u]), w);
        }
    }

  private:
    void add(std::string g, std::string f, std::string w, std::string d)
    {
        diffs.push_back({std::move(g), std::move(f), std::move(w), std::move(d)});
    }
    void label(celeritas::Label const& a, celeritas::Label const& b, std::string const& f, std::string const& w)
    {
        if (a.name != b.name)
            add("labels", f + ".name", w, "'" + a.name + "' vs '" + b.name + "'");
        if (a.ext != b.ext)
            add("labels", f + ".ext", w, "'" + a.ext + "' vs '" + b.ext + "'");
    }
    void transform(celeritas::VariantTransform const& a, celeritas::VariantTransform const& b,
                   std::string const& f, std::string const& w, bool rect_array)
    {
        auto da = transform_data(a), db = transform_data(b);
        if (a.index() != b.index())
        {
            if (rect_array)
            {
                // N2
                auto zero_or_none = [](std::vector<double> const& d) {
                    return d.empty() || (d.size() == 3 && d[0] == 0 && d[1] == 0 && d[2] == 0);
                };
                if (zero_or_none(da) && zero_or_none(db))
                    return;
            }
            add("placements", f + ".transform.type", w,
                std::to_string(a.index()) + " vs " + std::to_string(b.index()));
            return;
        }
        if (!same_bits_seq(da, db))
            add("placements", f + ".transform.data", w, hex_seq(da) + " vs " + hex_seq(db));
    }
    void volume(VolumeInput const& a, VolumeInput const& b, std::string const& w)
    {
        label(a.label, b.label, "volume.label", w);
        if (a.faces != b.faces)
            add("logic", "volume.faces", w, "face lists differ");
        if (a.logic != b.logic)
            add("logic", "volume.logic", w, "logic vectors differ");
        if (a.flags != b.flags)
            add("flags", "volume.flags", w, std::to_string(a.flags) + " vs " + std::to_string(b.flags));
        if (a.zorder != b.zorder)
            add("flags", "volume.zorder", w,
                std::string(1, celeritas::to_char(a.zorder)) + " vs " + std::string(1, celeritas::to_char(b.zorder)));
        if (!same_bbox(a.bbox, b.bbox))
            add("bboxes", "volume.bbox", w, bbox_str(a.bbox) + " vs " + bbox_str(b.bbox));
        // oriented bounding zone
        bool oa = static_cast<bool>(a.obz), ob = static_cast<bool>(b.obz);
        if (oa != ob)
            add("obz", "volume.obz", w, oa ? "present in original, absent after round trip" : "absent in original, present after");
        else if (oa)
        {
            if (!same_bbox(a.obz.inner, b.obz.inner) || !same_bbox(a.obz.outer, b.obz.outer)
                || a.obz.transform_id != b.obz.transform_id)
                add("obz", "volume.obz.data", w, "inner/outer/transform differ");
        }
    }
    void unit(UnitInput const& a, UnitInput const& b, std::string const& w)
    {
        label(a.label, b.label, "unit.label", w);
        if (a.surfaces.size() != b.surfaces.size())
            add("surfaces", "unit.surfaces.size", w,
                std::to_string(a.surfaces.size()) + " vs " + std::to_string(b.surfaces.size()));
        else
            for (std::size_t i = 0; i < a.surfaces.size(); ++i)
            {
                std::string ws = w + " surface " + std::to_string(i);
                if (a.surfaces[i].index() != b.surfaces[i].index())
                {
                    add("surfaces", "unit.surfaces.type", ws,
                        std::string(surface_type_name(a.surfaces[i])) + " vs " + surface_type_name(b.surfaces[i]));
                    continue;
                }
                auto da = surface_data(a.surfaces[i]), db = surface_data(b.surfaces[i]);
                if (!same_bits_seq(da, db))
                    add("surfaces", std::string("unit.surfaces.data/") + surface_type_name(a.surfaces[i]), ws,
                        hex_seq(da) + " vs " + hex_seq(db));
            }
        if (a.surface_labels.size() != b.surface_labels.size())
            add("labels", "unit.surface_labels.size", w,
                std::to_string(a.surface_labels.size()) + " vs " + std::to_string(b.surface_labels.size()));
        else
            for (std::size_t i = 0; i < a.surface_labels.size(); ++i)
                label(a.surface_labels[i], b.surface_labels[i], "unit.surface_label", w + " surface " + std::to_string(i));
        if (a.volumes.size() != b.volumes.size())
            add("structure", "unit.volumes.size", w,
                std::to_string(a.volumes.size()) + " vs " + std::to_string(b.volumes.size()));
        else
            for (std::size_t i = 0; i < a.volumes.size(); ++i)
                volume(a.volumes[i], b.volumes[i], w + " volume " + std::to_string(i));
        if (!same_bbox(a.bbox, b.bbox))
            add("bboxes", "unit.bbox", w, bbox_str(a.bbox) + " vs " + bbox_str(b.bbox));
        // daughters
        if (a.daughter_map.size() != b.daughter_map.size())
        {
            add("placements", "unit.daughters.size", w,
                std::to_string(a.daughter_map.size()) + " vs " + std::to_string(b.daughter_map.size()));
            return;
        }
        auto ib = b.daughter_map.begin();
        for (auto ia = a.daughter_map.begin(); ia != a.daughter_map.end(); ++ia, ++ib)
        {
            std::string wd = w + " daughter in volume " + std::to_string(ia->first.unchecked_get());
            if (ia->first != ib->first)
                add("placements", "unit.daughter.parent_volume", wd, "parent volume differs");
            if (ia->second.universe_id != ib->second.universe_id)
                add("placements", "unit.daughter.universe", wd, "universe id differs");
            transform(ia->second.transform, ib->second.transform, "unit.daughter", wd, false);
        }
    }
    void rect(RectArrayInput const& a, RectArrayInput const& b, std::string const& w)
    {
        label(a.label, b.label, "rect.label", w);
        for (int ax = 0; ax < 3; ++ax)
            if (!same_bits_seq(a.grid[ax], b.grid[ax]))
                add("rectarray", "rect.grid", w + " axis " + std::to_string(ax),
                    hex_seq(a.grid[ax]) + " vs " + hex_seq(b.grid[ax]));
        if (a.daughters.size() != b.daughters.size())
        {
            add("rectarray", "rect.daughters.size", w,
                std::to_string(a.daughters.size()) + " vs " + std::to_string(b.daughters.size()));
            return;
        }
        for (std::size_t i = 0; i < a.daughters.size(); ++i)
        {
            std::string wd = w + " cell " + std::to_string(i);
            if (a.daughters[i].universe_id != b.daughters[i].universe_id)
                add("rectarray", "rect.daughter.universe", wd, "universe id differs");
            transform(a.daughters[i].transform, b.daughters[i].transform, "rect.daughter", wd, true);
        }
    }
};

//---------------------------------------------------------------------------//
// Feature signature (coverage cell + histograms)
struct Signature
{
    unsigned surf_mask = 0;  // bit per SurfaceType
    unsigned xf_mask = 0;  // bit per transform variant index (unit daughters)
    bool background = false, obz = false, inf_bbox = false, null_bbox = false, label_ext = false,
         rect = false, nondefault_tol = false, internal_surfaces = false, multi_level = false;

    std::string cell() const
    {
        // surface families keep the number of cells meaningful
        auto fam = [&](std::initializer_list<int> bits) {
            for (int b : bits)
                if (surf_mask & (1u << b))
                    return true;
            return false;
        };
        std::string s = "surf=";
        s += fam({0, 1, 2}) ? 'P' : '-';
        s += fam({3, 4, 5, 7, 8, 9}) ? 'C' : '-';
        s += fam({6, 11}) ? 'S' : '-';
        s += fam({10}) ? 'p' : '-';
        s += fam({12, 13, 14}) ? 'K' : '-';
        s += fam({15}) ? 'q' : '-';
        s += fam({16}) ? 'G' : '-';
        s += fam({17}) ? 'I' : '-';
        s += "|xf=";
        s += (xf_mask & 1) ? 'n' : '-';
        s += (xf_mask & 2) ? 't' : '-';
        s += (xf_mask & 4) ? 'T' : '-';
        s += "|sp=";
        s += background ? 'b' : '-';
        s += obz ? 'o' : '-';
        s += inf_bbox ? 'i' : '-';
        s += null_bbox ? '0' : '-';
        s += label_ext ? 'e' : '-';
        s += rect ? 'r' : '-';
        s += nondefault_tol ? 't' : '-';
        s += multi_level ? 'm' : '-';
        return s;
    }
};

inline Signature signature(OrangeInput const& inp)
{
    Signature s;
    auto dflt = celeritas::Tolerance<>::from_default();
    s.nondefault_tol = !(inp.tol.rel == dflt.rel && inp.tol.abs == dflt.abs);
    s.multi_level = inp.universes.size() > 1;
    for (auto const& u : inp.universes)
    {
        if (auto const* ui = std::get_if<UnitInput>(&u))
        {
            if (!ui->label.ext.empty())
                s.label_ext = true;
            for (auto const& surf : ui->surfaces)
                s.surf_mask |= 1u << unsigned(surf.index());
            for (auto const& l : ui->surface_labels)
                if (!l.ext.empty())
                    s.label_ext = true;
            for (auto const& v : ui->volumes)
            {
                if (!v.label.ext.empty())
                    s.label_ext = true;
                if (v.zorder == celeritas::ZOrder::background)
                    s.background = true;
                if (v.obz)
                    s.obz = true;
                if (!v.bbox)
                    s.null_bbox = true;
                else if (v.bbox == celeritas::BBox::from_infinite()
                         || std::isinf(v.bbox.lower()[0]) || std::isinf(v.bbox.upper()[2]))
                    s.inf_bbox = true;
                if (v.flags & celeritas::VolumeRecord::internal_surfaces)
                    s.internal_surfaces = true;
            }
            for (auto const& kv : ui->daughter_map)
                s.xf_mask |= 1u << unsigned(kv.second.transform.index());
        }
        else
        {
            s.rect = true;
        }
    }
    return s;
}

//---------------------------------------------------------------------------//
// Structure-level fuzz: perturb fields of a valid input without changing its shape.
// The result is a valid argument for to_json (every documented CELER_EXPECT of the
// writers holds) but not necessarily a trackable geometry.
inline std::string random_name(verif::Rng& rng, int minlen = 1)
{
    static char const alphabet[] = "abcdefghijklmnopqrstuvwxyzABCXYZ0123456789_.-+[]:/ ";
    int n = int(rng.integer(minlen, 12));
    std::string s;
    for (int i = 0; i < n; ++i)
        s += alphabet[rng.integer(0, sizeof(alphabet) - 2)];
    return s;
}
inline double random_real(verif::Rng& rng)
{
    double u = rng.uniform();
    if (u < 0.1)
        return double(rng.integer(-5, 5));
    if (u < 0.2)
        return 0.25 * double(rng.integer(-40, 40));
    if (u < 0.3)
        return rng.coin() ? 0.0 : -0.0;
    double mag = std::pow(10.0, rng.uniform(-12, 8));
    return (rng.coin() ? 1 : -1) * mag * rng.uniform(0.1, 1.0);
}
inline celeritas::BBox random_bbox(verif::Rng& rng, bool allow_null)
{
    using celeritas::BBox;
    using celeritas::Real3;
    double u = rng.uniform();
    if (u < 0.15)
        return BBox::from_infinite();
    if (u < 0.25 && allow_null)
        return BBox{};
    Real3 lo, hi;
    double const inf = std::numeric_limits<double>::infinity();
    for (int i = 0; i < 3; ++i)
    {
        double a = random_real(rng), b = random_real(rng);
        if (a > b)
            std::swap(a, b);
        if (a == 0 && b == 0)
        {
            a = 0.0;
            b = 0.0;  // avoid (+0,-0) ordering questions
        }
        if (rng.coin(0.1))
            a = -inf;
        if (rng.coin(0.1))
            b = inf;
        lo[i] = a;
        hi[i] = b;
    }
    return BBox::from_unchecked(lo, hi);
}
inline celeritas::VariantTransform random_transform(verif::Rng& rng, bool translation_only)
{
    using namespace celeritas;
    double u = rng.uniform();
    if (u < 0.2)
        return NoTransformation{};
    if (u < 0.6 || translation_only)
    {
        Real3 t{random_real(rng), random_real(rng), random_real(rng)};
        if (translation_only && t[0] == 0 && t[1] == 0 && t[2] == 0)
            return NoTransformation{};
        return Translation{t};
    }
    // rotation through an arbitrary angle about z composed with an axis permutation
    double ang = rng.uniform(0, 6.283185307179586);
    double c = std::cos(ang), s = std::sin(ang);
    SquareMatrixReal3 m{Real3{c, -s, 0}, Real3{s, c, 0}, Real3{0, 0, rng.coin() ? 1.0 : -1.0}};
    if (rng.coin())
        std::swap(m[0], m[2]);
    return Transformation{m, Real3{random_real(rng), random_real(rng), random_real(rng)}};
}

inline void fuzz_input(OrangeInput& inp, verif::Rng& rng)
{
    using namespace celeritas;
    auto fuzz_label = [&](Label& l) {
        double u = rng.uniform();
        if (u < 0.3)
            l.ext = random_name(rng);
        else if (u < 0.4)
            l.ext.clear();
        if (rng.coin(0.3))
            l.name = random_name(rng);
    };
    // tolerances
    {
        double u = rng.uniform();
        if (u < 0.3)
            inp.tol = Tolerance<>::from_relative(std::pow(10.0, rng.uniform(-12, -2)), std::pow(10.0, rng.uniform(-3, 3)));
        else if (u < 0.5)
        {
            inp.tol.rel = std::pow(10.0, rng.uniform(-14, -0.5));
            inp.tol.abs = std::pow(10.0, rng.uniform(-14, 2));
        }
    }
    std::size_t nuniv = inp.universes.size();
    for (auto& u : inp.universes)
    {
        if (auto* ui = std::get_if<UnitInput>(&u))
        {
            fuzz_label(ui->label);
            if (ui->surface_labels.size() == ui->surfaces.size())
                for (auto& l : ui->surface_labels)
                    fuzz_label(l);
            if (rng.coin(0.5))
            {
                // full-precision surface data (types unchanged)
                for (auto& s : ui->surfaces)
                {
                    if (!rng.coin(0.5))
                        continue;
                    std::visit(
                        [&](auto& surf) {
                            using S = std::decay_t<decltype(surf)>;
                            auto d = surf.data();
                            std::vector<real_type> nd(d.begin(), d.end());
                            for (auto& v : nd)
                                v = v * (1 + rng.uniform(-1e-3, 1e-3)) + rng.uniform(-1e-9, 1e-9);
                            surf = S{typename S::StorageSpan{nd.data(), nd.size()}};
                        },
                        s);
                }
            }
            ui->bbox = random_bbox(rng, false);
            for (auto& v : ui->volumes)
            {
                fuzz_label(v.label);
                if (v.zorder == ZOrder::background)
                    continue;  // reader pins logic/bbox of background volumes
                if (rng.coin(0.5))
                    v.bbox = random_bbox(rng, true);
                if (rng.coin(0.4))
                    v.flags = logic_int(rng.integer(0, 15));
                if (rng.coin(0.4))
                {
                    static ZOrder const zs[] = {ZOrder::media, ZOrder::array, ZOrder::hole,
                                                ZOrder::implicit_exterior, ZOrder::exterior};
                    v.zorder = zs[rng.integer(0, 4)];
                }
                if (v.logic.empty())
                    v.logic = {logic::ltrue};
            }
            for (auto& kv : ui->daughter_map)
            {
                if (rng.coin(0.6))
                    kv.second.transform = random_transform(rng, false);
                if (rng.coin(0.3))
                    kv.second.universe_id = UniverseId{UniverseId::size_type(rng.integer(0, std::int64_t(nuniv) - 1))};
            }
        }
        else
        {
            auto& ra = std::get<RectArrayInput>(u);
            fuzz_label(ra.label);
            for (auto& g : ra.grid)
                for (auto& x : g)
                    if (rng.coin(0.5))
                        x = x * (1 + rng.uniform(-1e-6, 1e-6));
            for (auto& d : ra.daughters)
                if (rng.coin(0.5))
                    d.transform = random_transform(rng, true);
        }
    }
    if (rng.coin(0.5))
    {
        // synthetic rectangular array referring to existing universes
        RectArrayInput ra;
        ra.label = Label{random_name(rng), rng.coin() ? random_name(rng) : std::string{}};
        std::size_t n = 1;
        for (auto& g : ra.grid)
        {
            int np = int(rng.integer(2, 4));
            double x = random_real(rng);
            for (int i = 0; i < np; ++i)
            {
                g.push_back(x);
                x += std::fabs(random_real(rng)) + 1e-3;
            }
            n *= std::size_t(np - 1);
        }
        for (std::size_t i = 0; i < n; ++i)
        {
            celeritas::DaughterInput d;
            d.universe_id = UniverseId{UniverseId::size_type(rng.integer(0, std::int64_t(nuniv) - 1))};
            d.transform = random_transform(rng, true);
            ra.daughters.push_back(std::move(d));
        }
        inp.universes.emplace_back(std::move(ra));
    }
}

}  // namespace gb
