// Engine `geobuild`: reference (oracle) solid algebra for property C09.
//
// Every class below describes ONE user-level object of the orangeinp construction API and
// carries two independent things:
//   * eval(p): the ANALYTIC point-membership of the object, written from the documented
//     definitions (doc comments of IntersectRegion.hh / Solid.hh / PolySolid.hh / the
//     Geant4 solid definitions these refer to).  It never touches celeritas surfaces,
//     senses, CSG nodes or bounding boxes.
//   * make(): the celeritas object built through the public constructors (the code
//     under test).
// eval also returns a first-order distance to the nearest *primitive surface* of the
// object ("prox"), including the infinite extension of each face (the runtime forbids
// initialisation on any surface of the containing volume, internal ones included, and
// the property only quantifies over points farther than the tolerance from every
// surface).
#pragma once

#include <array>
#include <cmath>
#include <memory>
#include <optional>
#include <string>
#include <vector>

#include "corecel/math/Turn.hh"
#include "orange/OrangeTypes.hh"
#include "orange/orangeinp/CsgObject.hh"
#include "orange/orangeinp/IntersectRegion.hh"
#include "orange/orangeinp/ObjectInterface.hh"
#include "orange/orangeinp/PolySolid.hh"
#include "orange/orangeinp/Shape.hh"
#include "orange/orangeinp/Solid.hh"
#include "orange/orangeinp/Transformed.hh"
#include "orange/transform/VariantTransform.hh"

#include "verif_common.hh"

namespace gb
{
using verif::json;
namespace oi = celeritas::orangeinp;
using celeritas::Real3;
using celeritas::real_type;
using celeritas::Turn;
using SPObj = std::shared_ptr<oi::ObjectInterface const>;

constexpr double pi = 3.14159265358979323846264338327950288;
constexpr double twopi = 2 * pi;
constexpr double big = 1e300;

using Vec3 = std::array<double, 3>;

inline double dot(Vec3 const& a, Vec3 const& b)
{
    return a[0] * b[0] + a[1] * b[1] + a[2] * b[2];
}
inline double norm(Vec3 const& a)
{
    return std::sqrt(dot(a, a));
}
inline double frac(double x)
{
    return x - std::floor(x);
}

//---------------------------------------------------------------------------//
// Rigid transform p_parent = R p_daughter + t (the documented "daughter-to-parent"
// convention of Transformation.hh).
enum class XfKind
{
    none,
    translation,
    rot90,  // signed permutation with det +1
    rotgen,  // general rotation
    reflect,  // det -1
};
inline char const* to_str(XfKind k)
{
    switch (k)
    {
        case XfKind::none: return "none";
        case XfKind::translation: return "tr";
        case XfKind::rot90: return "rot90";
        case XfKind::rotgen: return "rotgen";
        case XfKind::reflect: return "refl";
    }
    return "?";
}

struct Xf
{
    double R[3][3] = {{1, 0, 0}, {0, 1, 0}, {0, 0, 1}};
    Vec3 t{{0, 0, 0}};
    XfKind kind = XfKind::none;

    Vec3 up(Vec3 const& p) const
    {
        Vec3 r;
        for (int i = 0; i < 3; ++i)
            r[i] = R[i][0] * p[0] + R[i][1] * p[1] + R[i][2] * p[2] + t[i];
        return r;
    }
    Vec3 down(Vec3 const& p) const
    {
        Vec3 d{{p[0] - t[0], p[1] - t[1], p[2] - t[2]}};
        Vec3 r;
        for (int i = 0; i < 3; ++i)
            r[i] = R[0][i] * d[0] + R[1][i] * d[1] + R[2][i] * d[2];
        return r;
    }
    bool has_rotation() const { return kind != XfKind::none && kind != XfKind::translation; }

    // The celeritas transform handed to the API (same numbers, same convention)
    celeritas::VariantTransform make() const
    {
        using namespace celeritas;
        if (kind == XfKind::none)
            return NoTransformation{};
        if (kind == XfKind::translation)
            return Translation{Real3{t[0], t[1], t[2]}};
        SquareMatrixReal3 m;
        for (int i = 0; i < 3; ++i)
            for (int j = 0; j < 3; ++j)
                m[i][j] = R[i][j];
        return Transformation{m, Real3{t[0], t[1], t[2]}};
    }
    json to_json() const
    {
        json j;
        j["kind"] = to_str(kind);
        j["t"] = {t[0], t[1], t[2]};
        if (has_rotation())
            j["R"] = {R[0][0], R[0][1], R[0][2], R[1][0], R[1][1], R[1][2], R[2][0], R[2][1], R[2][2]};
        return j;
    }
};

// compose: result.up(p) = a.up(b.up(p))
inline Xf compose(Xf const& a, Xf const& b)
{
    Xf r;
    for (int i = 0; i < 3; ++i)
        for (int j = 0; j < 3; ++j)
        {
            double s = 0;
            for (int k = 0; k < 3; ++k)
                s += a.R[i][k] * b.R[k][j];
            r.R[i][j] = s;
        }
    r.t = a.up(b.t);
    r.kind = XfKind::rotgen;
    return r;
}

//---------------------------------------------------------------------------//
struct Prim;

// Evaluation result
struct Ev
{
    bool in = false;
    double prox = big;  // first-order distance to the nearest primitive surface
    Prim const* nearest = nullptr;

    void absorb_prox(Ev const& o)
    {
        if (o.prox < prox)
        {
            prox = o.prox;
            nearest = o.nearest;
        }
    }
};

// Context bits a primitive is used in (for coverage cells)
enum Ctx : unsigned
{
    ctx_plain = 1,
    ctx_neg = 2,
    ctx_any = 4,
    ctx_all = 8,
};

struct Node
{
    std::string label;
    virtual ~Node() = default;
    virtual Ev eval(Vec3 const& p) const = 0;
    virtual SPObj make() const = 0;
    virtual json describe() const = 0;
    // visit all primitives with the accumulated object-to-frame transform and context
    virtual void visit(Xf const& to_frame, unsigned ctx, XfKind worst,
                       std::vector<struct PrimRef>& out) const = 0;
    // cached celeritas object (an object may be referenced from several places, as users do)
    SPObj object() const
    {
        if (!obj_)
            obj_ = this->make();
        return obj_;
    }

  private:
    mutable SPObj obj_;
};
using SPNode = std::shared_ptr<Node const>;

struct PrimRef
{
    Prim const* prim;
    Xf to_frame;  // primitive-local -> frame in which the tree is evaluated
};

inline XfKind worse(XfKind a, XfKind b)
{
    return int(a) > int(b) ? a : b;
}

//---------------------------------------------------------------------------//
// PRIMITIVES (documented definitions)
//---------------------------------------------------------------------------//
// Azimuthal restriction shared by hollow solids and poly-solids, Solid.hh:
// "a pie slice infinite along the z axis ... start angle of zero corresponding to the +x
// axis": azimuth in [start, start+interior] (turns).
struct Angle
{
    double start = 0, interior = 1;
    bool restricted() const { return interior != 1; }
    // in/out + distance to the two bounding planes (which contain the z axis)
    void eval(Vec3 const& p, bool& in, double& prox) const
    {
        if (!restricted())
        {
            in = true;
            prox = big;
            return;
        }
        double phi = std::atan2(p[1], p[0]) / twopi;
        double a = frac(phi - start);
        in = a < interior;
        prox = big;
        for (double edge : {start, start + interior})
        {
            double s = std::sin(twopi * edge), c = std::cos(twopi * edge);
            prox = std::min(prox, std::fabs(p[0] * s - p[1] * c));
        }
    }
};

struct Prim : Node
{
    std::string kind;  // site name for keys / cells
    double rad = 1;  // rough extent (used to sample probe points around the primitive)
    mutable unsigned ctx_mask = 0;
    mutable XfKind xf_seen = XfKind::none;

    // local membership + proximity
    virtual void local(Vec3 const& p, bool& in, double& prox) const = 0;

    //// input-class helpers (used only to NAME the site of a violation, never to judge) ////
    // coarse shape family: sphere | revolution | prism | other
    virtual char const* family() const { return "other"; }
    // radii of the coaxial curved surfaces (cylinders / cone ends) this object is built from
    virtual std::vector<double> coaxial_radii() const { return {}; }
    // smallest |r1^2 - r2^2| between two distinct coaxial radii (big if fewer than two)
    double coaxial_r2_gap() const
    {
        auto r = this->coaxial_radii();
        double gap = big;
        for (std::size_t i = 0; i < r.size(); ++i)
            for (std::size_t j = i + 1; j < r.size(); ++j)
                if (r[i] != r[j])
                    gap = std::min(gap, std::fabs(r[i] * r[i] - r[j] * r[j]));
        return gap;
    }

    Ev eval(Vec3 const& p) const final
    {
        Ev e;
        local(p, e.in, e.prox);
        e.nearest = this;
        return e;
    }
    void visit(Xf const& to_frame, unsigned ctx, XfKind worst, std::vector<PrimRef>& out) const final
    {
        ctx_mask |= ctx;
        xf_seen = worse(xf_seen, worst);
        out.push_back({this, to_frame});
    }
};

//---------------------------------------------------------------------------//
// "A rectangular parallelepiped/cuboid centered on the origin", half-widths
struct PBox : Prim
{
    Vec3 h;
    PBox(std::string l, Vec3 hw) : h(hw)
    {
        label = std::move(l);
        kind = "box";
    }
    void local(Vec3 const& p, bool& in, double& prox) const override
    {
        in = true;
        prox = big;
        for (int i = 0; i < 3; ++i)
        {
            in = in && std::fabs(p[i]) < h[i];
            prox = std::min(prox, std::fabs(std::fabs(p[i]) - h[i]));
        }
    }
    SPObj make() const override
    {
        return std::make_shared<oi::BoxShape>(std::string(label), oi::Box{Real3{h[0], h[1], h[2]}});
    }
    json describe() const override { return {{"box", {h[0], h[1], h[2]}}, {"label", label}}; }
};

// "A sphere centered on the origin"
struct PSphere : Prim
{
    double r;
    PSphere(std::string l, double rr) : r(rr)
    {
        label = std::move(l);
        kind = "sphere";
    }
    char const* family() const override { return "sphere"; }
    void local(Vec3 const& p, bool& in, double& prox) const override
    {
        double d = norm(p);
        in = d < r;
        prox = std::fabs(d - r);
    }
    SPObj make() const override
    {
        return std::make_shared<oi::SphereShape>(std::string(label), oi::Sphere{r});
    }
    json describe() const override { return {{"sphere", r}, {"label", label}}; }
};

// helpers for z-aligned bodies of revolution -------------------------------
inline void cyl_local(Vec3 const& p, double r, double hh, bool& in, double& prox)
{
    double rho = std::hypot(p[0], p[1]);
    in = rho < r && std::fabs(p[2]) < hh;
    prox = std::min(std::fabs(rho - r), std::fabs(std::fabs(p[2]) - hh));
}
// "A closed cone along the Z axis centered on the origin ... The midpoint along the Z axis
// of the cone is the origin", radii at -hh and +hh: radius varies linearly in z.
inline void cone_local(Vec3 const& p, double lo, double hi, double hh, bool& in, double& prox)
{
    double rho = std::hypot(p[0], p[1]);
    double slope = (hi - lo) / (2 * hh);
    double rz = lo + slope * (p[2] + hh);
    in = std::fabs(p[2]) < hh && rho < rz;
    // distance to the (double) cone measured perpendicular to the generator
    double cosang = 1 / std::sqrt(1 + slope * slope);
    prox = std::min(std::fabs(rho - std::fabs(rz)) * cosang, std::fabs(std::fabs(p[2]) - hh));
}
// "A regular, z-extruded polygon centered on the origin ... every shape has a surface at
// y = -a ... orientation is a scaled counterclockwise rotation on [0,1) ... unity
// replicates the original shape but with the p0 face being where p1 originally was"
inline void prism_local(Vec3 const& p, int n, double a, double hh, double orient, bool& in, double& prox)
{
    in = std::fabs(p[2]) < hh;
    prox = std::fabs(std::fabs(p[2]) - hh);
    for (int k = 0; k < n; ++k)
    {
        double psi = -pi / 2 + twopi * (k + orient) / n;
        double d = p[0] * std::cos(psi) + p[1] * std::sin(psi) - a;
        in = in && d < 0;
        prox = std::min(prox, std::fabs(d));
    }
}

struct PCyl : Prim
{
    double r, hh;
    PCyl(std::string l, double rr, double h) : r(rr), hh(h)
    {
        label = std::move(l);
        kind = "cyl";
    }
    char const* family() const override { return "revolution"; }
    void local(Vec3 const& p, bool& in, double& prox) const override { cyl_local(p, r, hh, in, prox); }
    SPObj make() const override
    {
        return std::make_shared<oi::CylinderShape>(std::string(label), oi::Cylinder{r, hh});
    }
    json describe() const override { return {{"cyl", {r, hh}}, {"label", label}}; }
};

struct PCone : Prim
{
    double lo, hi, hh;
    PCone(std::string l, double a, double b, double h) : lo(a), hi(b), hh(h)
    {
        label = std::move(l);
        kind = (a == 0 || b == 0) ? "cone-apex" : "cone";
    }
    char const* family() const override { return "revolution"; }
    void local(Vec3 const& p, bool& in, double& prox) const override
    {
        cone_local(p, lo, hi, hh, in, prox);
    }
    SPObj make() const override
    {
        return std::make_shared<oi::ConeShape>(std::string(label), oi::Cone{{lo, hi}, hh});
    }
    json describe() const override { return {{"cone", {lo, hi, hh}}, {"label", label}}; }
};

// "An axis-aligned ellipsoid centered at the origin", radii along each axis
struct PEllipsoid : Prim
{
    Vec3 r;
    PEllipsoid(std::string l, Vec3 rr) : r(rr)
    {
        label = std::move(l);
        // parameter class for keys/cells: small semi-axes (in native length units)
        kind = std::min({rr[0], rr[1], rr[2]}) < 0.1 ? "ellipsoid-small-radii" : "ellipsoid";
    }
    void local(Vec3 const& p, bool& in, double& prox) const override
    {
        double f = -1, g2 = 0;
        for (int i = 0; i < 3; ++i)
        {
            f += (p[i] / r[i]) * (p[i] / r[i]);
            double g = 2 * p[i] / (r[i] * r[i]);
            g2 += g * g;
        }
        in = f < 0;
        prox = g2 > 0 ? std::fabs(f) / std::sqrt(g2) : std::min({r[0], r[1], r[2]});
    }
    SPObj make() const override
    {
        return std::make_shared<oi::EllipsoidShape>(std::string(label),
                                                    oi::Ellipsoid{Real3{r[0], r[1], r[2]}});
    }
    json describe() const override { return {{"ellipsoid", {r[0], r[1], r[2]}}, {"label", label}}; }
};

struct PPrism : Prim
{
    int n;
    double a, hh, orient;
    PPrism(std::string l, int nn, double aa, double h, double o) : n(nn), a(aa), hh(h), orient(o)
    {
        label = std::move(l);
        kind = "prism";
    }
    char const* family() const override { return "prism"; }
    void local(Vec3 const& p, bool& in, double& prox) const override
    {
        prism_local(p, n, a, hh, orient, in, prox);
    }
    SPObj make() const override
    {
        return std::make_shared<oi::PrismShape>(std::string(label), oi::Prism{n, a, hh, orient});
    }
    json describe() const override { return {{"prism", {double(n), a, hh, orient}}, {"label", label}}; }
};

// "A general parallelepiped centered on the origin ... halfedges: a 3-vector with
// half-lengths of the projections of the edges on X, Y, Z. The lower Z face is positioned
// at -dZ, and the upper one at +dZ; alpha: angle between the segment defined by the
// centers of the X-parallel edges and Y axis; theta: polar angle of the shape's main axis
// (segment defined by the centers of the Z faces); phi: azimuthal angle of the main axis".
// This is the G4Para definition (the g4org converter passes G4Para's parameters through
// unchanged):  |z| < dz, |y - z tan(theta) sin(phi)| < dy,
//              |x - z tan(theta) cos(phi) - (y - z tan(theta) sin(phi)) tan(alpha)| < dx.
struct PPara : Prim
{
    Vec3 h;
    double alpha, theta, phi;  // turns
    PPara(std::string l, Vec3 hh, double al, double th, double ph)
        : h(hh), alpha(al), theta(th), phi(ph)
    {
        label = std::move(l);
        kind = "parallelepiped";
    }
    void local(Vec3 const& p, bool& in, double& prox) const override
    {
        double tth = std::tan(twopi * theta), tal = std::tan(twopi * alpha);
        double tx = tth * std::cos(twopi * phi), ty = tth * std::sin(twopi * phi);
        double yp = p[1] - p[2] * ty;
        double xp = p[0] - p[2] * tx - yp * tal;
        in = std::fabs(p[2]) < h[2] && std::fabs(yp) < h[1] && std::fabs(xp) < h[0];
        double ny = std::sqrt(1 + ty * ty);
        double cz = -tx + tal * ty;
        double nx = std::sqrt(1 + tal * tal + cz * cz);
        prox = std::min({std::fabs(std::fabs(p[2]) - h[2]),
                         std::fabs(std::fabs(yp) - h[1]) / ny,
                         std::fabs(std::fabs(xp) - h[0]) / nx});
    }
    SPObj make() const override
    {
        return std::make_shared<oi::ParallelepipedShape>(
            std::string(label),
            oi::Parallelepiped{Real3{h[0], h[1], h[2]}, Turn{alpha}, Turn{theta}, Turn{phi}});
    }
    json describe() const override
    {
        return {{"para", {h[0], h[1], h[2], alpha, theta, phi}}, {"label", label}};
    }
};

// "polyhedral faces on two parallel planes perpendicular to the Z axis ... twisted faces
// can be constructed by joining corresponding points using straight-line 'vertical'
// edges, directly matching the G4GenericTrap definition": at height z the cross section
// is the polygon of the linearly interpolated vertices; each side face is the ruled
// surface swept by the edge between two neighbouring vertical edges.
struct PGenPrism : Prim
{
    double hz;
    std::vector<std::array<double, 2>> lo, hi;
    double orient = 1;  // +1 counterclockwise input, -1 clockwise
    enum class Via
    {
        vertices,
        trd,
        trap
    } via
        = Via::vertices;
    // parameters for the helper constructors (used by make() only)
    std::array<double, 2> trd_lo{}, trd_hi{};
    double trap_theta = 0, trap_phi = 0;
    std::array<double, 4> trap_lo{}, trap_hi{};  // hy, hx_lo, hx_hi, alpha

    PGenPrism(std::string l, double h) : hz(h)
    {
        label = std::move(l);
        kind = "genprism";
    }
    // A face whose lower and upper edges enclose an angle theta is built as a *plane* by
    // GenPrism::build when cos(theta) is soft-equal to 1 at the construction tolerance, i.e.
    // theta < sqrt(2 rel) (1.4e-4 at the default tolerance, 4.5e-3 at rel = 1e-5, the loosest
    // tolerance generated): the known "smalltwist" defect.  A prism is classified by its
    // *smallest* non-zero face twist, since one planarised face is enough.
    void finalize(double twist_class_threshold = 5e-3)
    {
        // orientation from the signed area of the larger polygon
        auto area = [](std::vector<std::array<double, 2>> const& v) {
            double a = 0;
            for (std::size_t i = 0; i < v.size(); ++i)
            {
                auto const& p = v[i];
                auto const& q = v[(i + 1) % v.size()];
                a += p[0] * q[1] - p[1] * q[0];
            }
            return a / 2;
        };
        double al = area(lo), ah = area(hi);
        double a = std::fabs(al) > std::fabs(ah) ? al : ah;
        orient = a >= 0 ? 1 : -1;
        // classify
        double maxtw = 0, mintw = 1e300;
        for (std::size_t i = 0; i < lo.size(); ++i)
        {
            std::size_t j = (i + 1) % lo.size();
            double ex = lo[j][0] - lo[i][0], ey = lo[j][1] - lo[i][1];
            double fx = hi[j][0] - hi[i][0], fy = hi[j][1] - hi[i][1];
            double ne = std::hypot(ex, ey), nf = std::hypot(fx, fy);
            if (ne > 0 && nf > 0)
            {
                double tw = std::fabs(ex * fy - ey * fx) / (ne * nf);
                maxtw = std::max(maxtw, tw);
                if (tw > 1e-12)  // above rounding of the vertex coordinates
                    mintw = std::min(mintw, tw);
            }
        }
        if (maxtw <= 1e-12)
            kind = via == Via::trd ? "genprism-trd" : via == Via::trap ? "genprism-trap" : "genprism-planar";
        else if (mintw < twist_class_threshold)
            kind = "genprism-smalltwist";
        else
            kind = "genprism-twisted";
    }
    void local(Vec3 const& p, bool& in, double& prox) const override
    {
        in = std::fabs(p[2]) < hz;
        prox = std::fabs(std::fabs(p[2]) - hz);
        double s = (p[2] + hz) / (2 * hz);
        double dsdz = 1 / (2 * hz);
        std::size_t n = lo.size();
        for (std::size_t i = 0; i < n; ++i)
        {
            std::size_t j = (i + 1) % n;
            // vertices at this height and their z-derivatives
            double vix = lo[i][0] + (hi[i][0] - lo[i][0]) * s, viy = lo[i][1] + (hi[i][1] - lo[i][1]) * s;
            double vjx = lo[j][0] + (hi[j][0] - lo[j][0]) * s, vjy = lo[j][1] + (hi[j][1] - lo[j][1]) * s;
            double dvix = (hi[i][0] - lo[i][0]) * dsdz, dviy = (hi[i][1] - lo[i][1]) * dsdz;
            double dvjx = (hi[j][0] - lo[j][0]) * dsdz, dvjy = (hi[j][1] - lo[j][1]) * dsdz;
            double ex = vjx - vix, ey = vjy - viy;
            double dex = dvjx - dvix, dey = dvjy - dviy;
            if (lo[i] == lo[j] && hi[i] == hi[j])
                continue;  // no face
            // g > 0 on the interior side of a counterclockwise polygon
            double g = ex * (p[1] - viy) - ey * (p[0] - vix);
            double gx = -ey, gy = ex;
            double gz = dex * (p[1] - viy) - ex * dviy - dey * (p[0] - vix) + ey * dvix;
            in = in && (orient * g > 0);
            double gn = std::sqrt(gx * gx + gy * gy + gz * gz);
            prox = std::min(prox, gn > 0 ? std::fabs(g) / gn : 0.0);
        }
    }
    SPObj make() const override
    {
        using VR2 = oi::GenPrism::VecReal2;
        if (via == Via::trd)
            return std::make_shared<oi::GenPrismShape>(
                std::string(label),
                oi::GenPrism::from_trd(hz, {trd_lo[0], trd_lo[1]}, {trd_hi[0], trd_hi[1]}));
        if (via == Via::trap)
        {
            oi::GenPrism::TrapFace flo{trap_lo[0], trap_lo[1], trap_lo[2], Turn{trap_lo[3]}};
            oi::GenPrism::TrapFace fhi{trap_hi[0], trap_hi[1], trap_hi[2], Turn{trap_hi[3]}};
            return std::make_shared<oi::GenPrismShape>(
                std::string(label),
                oi::GenPrism::from_trap(hz, Turn{trap_theta}, Turn{trap_phi}, flo, fhi));
        }
        VR2 l, h;
        for (auto const& v : lo)
            l.push_back({v[0], v[1]});
        for (auto const& v : hi)
            h.push_back({v[0], v[1]});
        return std::make_shared<oi::GenPrismShape>(std::string(label), oi::GenPrism{hz, l, h});
    }
    json describe() const override
    {
        json j;
        j["label"] = label;
        j["genprism"]["hz"] = hz;
        j["genprism"]["lo"] = lo;
        j["genprism"]["hi"] = hi;
        j["genprism"]["via"] = int(via);
        return j;
    }
};

// "An open wedge shape from the Z axis ... defined by an interior angle that must be less
// than or equal to 180 degrees": azimuth in (start, start + interior)
struct PWedge : Prim
{
    Angle ang;
    PWedge(std::string l, double start, double interior)
    {
        label = std::move(l);
        kind = interior == 0.5 ? "infwedge-half" : "infwedge";
        ang.start = start;
        ang.interior = interior;
    }
    void local(Vec3 const& p, bool& in, double& prox) const override { ang.eval(p, in, prox); }
    SPObj make() const override
    {
        return std::make_shared<oi::Shape<oi::InfWedge>>(
            std::string(label), oi::InfWedge{Turn{ang.start}, Turn{ang.interior}});
    }
    json describe() const override { return {{"infwedge", {ang.start, ang.interior}}, {"label", label}}; }
};

// "An involute blade ... the intersection of two parallel involutes with a cylindrical
// shell. The three radii ... are that of the involute, the inner cylinder, and the outer
// cylinder", counterclockwise ("left") chirality only, from the parametric definition in
// surf/Involute.hh:  x = rb (cos(t+a) + t sin(t+a)), y = rb (sin(t+a) - t cos(t+a)).
// A point at radius rho lies on the involute with displacement angle
//   a(p) = azimuth - t + atan(t),   t = sqrt(rho^2/rb^2 - 1);
// involutes of one circle are parallel curves a normal distance rb*|a - a'| apart.
struct PInvolute : Prim
{
    double rb, rin, rout, a0, a1, hh;
    PInvolute(std::string l, double b, double i, double o, double d0, double d1, double h)
        : rb(b), rin(i), rout(o), a0(d0), a1(d1), hh(h)
    {
        label = std::move(l);
        kind = "involute";
    }
    void local(Vec3 const& p, bool& in, double& prox) const override
    {
        double rho = std::hypot(p[0], p[1]);
        prox = std::min({std::fabs(rho - rin), std::fabs(rho - rout), std::fabs(std::fabs(p[2]) - hh)});
        in = rho > rin && rho < rout && std::fabs(p[2]) < hh;
        if (rho <= rb)
        {
            in = false;
            return;
        }
        double t = std::sqrt(rho * rho / (rb * rb) - 1);
        double a = std::atan2(p[1], p[0]) - t + std::atan(t);
        double rel = frac((a - a0) / twopi) * twopi;
        in = in && rel < (a1 - a0);
        for (double ak : {a0, a1})
        {
            double d = frac((a - ak) / twopi + 0.5) - 0.5;  // (-0.5, 0.5] turns
            prox = std::min(prox, rb * std::fabs(d) * twopi);
        }
    }
    SPObj make() const override
    {
        return std::make_shared<oi::InvoluteShape>(
            std::string(label),
            oi::Involute{Real3{rb, rin, rout}, {a0, a1}, celeritas::Chirality::left, hh});
    }
    json describe() const override { return {{"involute", {rb, rin, rout, a0, a1, hh}}, {"label", label}}; }
};

//---------------------------------------------------------------------------//
// "Solids are a shape with (optionally) the same kind of shape subtracted from it, and
// (optionally) an azimuthal section removed from it."
struct PSolid : Prim
{
    enum class K
    {
        cone,
        cyl,
        prism,
        sphere
    } k;
    // interior / excluded parameters: cone (lo,hi,hh), cyl (r,hh), prism (a,hh), sphere (r)
    std::array<double, 3> in_{}, ex_{};
    bool hollow = false;
    int n = 0;
    double orient = 0;
    Angle ang;

    PSolid(std::string l, K kk) : k(kk) { label = std::move(l); }
    char const* family() const override
    {
        return k == K::sphere ? "sphere" : k == K::prism ? "prism" : "revolution";
    }
    std::vector<double> coaxial_radii() const override
    {
        std::vector<double> r;
        if (k == K::cyl)
        {
            r.push_back(in_[0]);
            if (hollow)
                r.push_back(ex_[0]);
        }
        else if (k == K::cone)
        {
            r = {in_[0], in_[1]};
            if (hollow)
            {
                r.push_back(ex_[0]);
                r.push_back(ex_[1]);
            }
        }
        return r;
    }
    void finalize()
    {
        static char const* const names[] = {"cone", "cyl", "prism", "sphere"};
        kind = std::string("solid-") + names[int(k)] + (hollow ? "-hollow" : "")
               + (ang.restricted() ? (ang.interior > 0.5 ? "-cutwedge" : (ang.interior == 0.5 ? "-half" : "-wedge")) : "");
    }
    void region(std::array<double, 3> const& q, Vec3 const& p, bool& in, double& prox) const
    {
        switch (k)
        {
            case K::cone: cone_local(p, q[0], q[1], q[2], in, prox); break;
            case K::cyl: cyl_local(p, q[0], q[1], in, prox); break;
            case K::prism: prism_local(p, n, q[0], q[1], orient, in, prox); break;
            case K::sphere:
            {
                double d = norm(p);
                in = d < q[0];
                prox = std::fabs(d - q[0]);
                break;
            }
        }
    }
    void local(Vec3 const& p, bool& in, double& prox) const override
    {
        region(in_, p, in, prox);
        if (hollow)
        {
            bool ein;
            double eprox;
            region(ex_, p, ein, eprox);
            in = in && !ein;
            prox = std::min(prox, eprox);
        }
        bool ain;
        double aprox;
        ang.eval(p, ain, aprox);
        in = in && ain;
        prox = std::min(prox, aprox);
    }
    template<class T, class F>
    SPObj make_impl(F&& mk) const
    {
        std::optional<T> excl;
        if (hollow)
            excl = mk(ex_);
        oi::SolidEnclosedAngle sea;
        if (ang.restricted())
            sea = oi::SolidEnclosedAngle{Turn{ang.start}, Turn{ang.interior}};
        return std::make_shared<oi::Solid<T>>(std::string(label), mk(in_), std::move(excl), std::move(sea));
    }
    SPObj make() const override
    {
        switch (k)
        {
            case K::cone:
                return make_impl<oi::Cone>([](auto const& q) { return oi::Cone{{q[0], q[1]}, q[2]}; });
            case K::cyl:
                return make_impl<oi::Cylinder>([](auto const& q) { return oi::Cylinder{q[0], q[1]}; });
            case K::prism:
                return make_impl<oi::Prism>(
                    [this](auto const& q) { return oi::Prism{n, q[0], q[1], orient}; });
            case K::sphere:
                return make_impl<oi::Sphere>([](auto const& q) { return oi::Sphere{q[0]}; });
        }
        return nullptr;
    }
    json describe() const override
    {
        json j;
        j["label"] = label;
        j["solid"]["kind"] = kind;
        j["solid"]["interior"] = in_;
        if (hollow)
            j["solid"]["excluded"] = ex_;
        j["solid"]["n"] = n;
        j["solid"]["orient"] = orient;
        j["solid"]["angle"] = {ang.start, ang.interior};
        return j;
    }
};

// "A series of stacked cones or cylinders" / "stacked regular prisms": segment i spans
// z in [z_i, z_i+1] with outer (and optionally inner) radius interpolated linearly between
// the grid values (prisms: constant apothem per segment); optional azimuthal restriction.
struct PPoly : Prim
{
    bool prism = false;
    std::vector<double> inner, outer, z;
    int n = 0;
    double orient = 0;
    Angle ang;
    double skip_tol = 0;  // zero-height segments (|dz| below the construction tolerance) are no segments

    PPoly(std::string l, bool is_prism) : prism(is_prism)
    {
        label = std::move(l);
    }
    char const* family() const override { return prism ? "prism" : "revolution"; }
    std::vector<double> coaxial_radii() const override
    {
        std::vector<double> r;
        if (!prism)
        {
            r = outer;
            r.insert(r.end(), inner.begin(), inner.end());
        }
        return r;
    }
    void finalize()
    {
        kind = std::string(prism ? "polyprism" : "polycone") + (inner.empty() ? "" : "-hollow")
               + (ang.restricted() ? "-angle" : "");
    }
    void local(Vec3 const& p, bool& in, double& prox) const override
    {
        in = false;
        prox = big;
        for (std::size_t i = 0; i + 1 < z.size(); ++i)
        {
            double zlo = z[i], zhi = z[i + 1];
            if (!(zhi - zlo > skip_tol))
                continue;
            double hh = (zhi - zlo) / 2;
            Vec3 q{{p[0], p[1], p[2] - (zlo + hh)}};
            bool sin_;
            double sprox;
            if (prism)
                prism_local(q, n, outer[i], hh, orient, sin_, sprox);
            else if (outer[i] == outer[i + 1])
                cyl_local(q, outer[i], hh, sin_, sprox);
            else
                cone_local(q, outer[i], outer[i + 1], hh, sin_, sprox);
            if (!inner.empty())
            {
                bool ein;
                double eprox;
                if (prism)
                    prism_local(q, n, inner[i], hh, orient, ein, eprox);
                else if (inner[i] == inner[i + 1])
                    cyl_local(q, inner[i], hh, ein, eprox);
                else
                    cone_local(q, inner[i], inner[i + 1], hh, ein, eprox);
                sin_ = sin_ && !ein;
                sprox = std::min(sprox, eprox);
            }
            in = in || sin_;
            prox = std::min(prox, sprox);
        }
        bool ain;
        double aprox;
        ang.eval(p, ain, aprox);
        in = in && ain;
        prox = std::min(prox, aprox);
    }
    SPObj make() const override
    {
        using VR = oi::PolySegments::VecReal;
        oi::PolySegments seg = inner.empty() ? oi::PolySegments{VR(outer), VR(z)}
                                             : oi::PolySegments{VR(inner), VR(outer), VR(z)};
        oi::SolidEnclosedAngle sea;
        if (ang.restricted())
            sea = oi::SolidEnclosedAngle{Turn{ang.start}, Turn{ang.interior}};
        if (prism)
            return oi::PolyPrism::or_solid(std::string(label), std::move(seg), std::move(sea), n, orient);
        return oi::PolyCone::or_solid(std::string(label), std::move(seg), std::move(sea));
    }
    json describe() const override
    {
        json j;
        j["label"] = label;
        j[kind]["z"] = z;
        j[kind]["outer"] = outer;
        j[kind]["inner"] = inner;
        j[kind]["n"] = n;
        j[kind]["orient"] = orient;
        j[kind]["angle"] = {ang.start, ang.interior};
        return j;
    }
};

//---------------------------------------------------------------------------//
// COMPOSITES
//---------------------------------------------------------------------------//
// Transformed.hh: "Build a translated or transformed object" with a daughter-to-parent
// transform: a point belongs to the transformed object iff its pre-image belongs to the
// object.
struct NTransformed : Node
{
    SPNode child;
    Xf xf;
    NTransformed(SPNode c, Xf x) : child(std::move(c)), xf(x) { label = child->label; }
    Ev eval(Vec3 const& p) const override { return child->eval(xf.down(p)); }
    SPObj make() const override
    {
        return std::make_shared<oi::Transformed>(child->object(), xf.make());
    }
    json describe() const override { return {{"transformed", child->describe()}, {"xf", xf.to_json()}}; }
    void visit(Xf const& to_frame, unsigned ctx, XfKind worst, std::vector<PrimRef>& out) const override
    {
        child->visit(compose(to_frame, xf), ctx, worse(worst, xf.kind), out);
    }
};

// CsgObject.hh: "Everywhere but the embedded object"
struct NNeg : Node
{
    SPNode child;
    explicit NNeg(std::string l, SPNode c) : child(std::move(c)) { label = std::move(l); }
    Ev eval(Vec3 const& p) const override
    {
        Ev e = child->eval(p);
        e.in = !e.in;
        return e;
    }
    SPObj make() const override
    {
        return std::make_shared<oi::NegatedObject>(std::string(label), child->object());
    }
    json describe() const override { return {{"not", child->describe()}, {"label", label}}; }
    void visit(Xf const& to_frame, unsigned ctx, XfKind worst, std::vector<PrimRef>& out) const override
    {
        child->visit(to_frame, (ctx & ~ctx_plain) | ctx_neg, worst, out);
    }
};

// "Join all of the given objects with an intersection or union"; make_rdv / make_subtraction
struct NJoin : Node
{
    enum class Op
    {
        any,
        all,
        rdv,  // make_rdv: senses + objects
        sub,  // make_subtraction(minuend, subtrahend)
    } op;
    std::vector<SPNode> kids;
    std::vector<bool> inside;  // for rdv: sense of each kid (true = inside)
    NJoin(std::string l, Op o) : op(o) { label = std::move(l); }
    Ev eval(Vec3 const& p) const override
    {
        Ev e;
        e.in = (op != Op::any);
        for (std::size_t i = 0; i < kids.size(); ++i)
        {
            Ev c = kids[i]->eval(p);
            bool cin = c.in;
            if (op == Op::rdv && !inside[i])
                cin = !cin;
            if (op == Op::sub && i == 1)
                cin = !cin;
            if (op == Op::any)
                e.in = e.in || cin;
            else
                e.in = e.in && cin;
            e.absorb_prox(c);
        }
        return e;
    }
    SPObj make() const override
    {
        if (op == Op::any || op == Op::all)
        {
            std::vector<SPObj> objs;
            for (auto const& k : kids)
                objs.push_back(k->object());
            if (op == Op::any)
                return std::make_shared<oi::AnyObjects>(std::string(label), std::move(objs));
            return std::make_shared<oi::AllObjects>(std::string(label), std::move(objs));
        }
        if (op == Op::sub)
            return oi::make_subtraction(std::string(label), kids[0]->object(), kids[1]->object());
        oi::VecSenseObj rdv;
        for (std::size_t i = 0; i < kids.size(); ++i)
            rdv.push_back({inside[i] ? celeritas::Sense::inside : celeritas::Sense::outside, kids[i]->object()});
        return oi::make_rdv(std::string(label), std::move(rdv));
    }
    json describe() const override
    {
        static char const* const names[] = {"any", "all", "rdv", "sub"};
        json j;
        j["label"] = label;
        json a = json::array();
        for (std::size_t i = 0; i < kids.size(); ++i)
        {
            json k = kids[i]->describe();
            if (op == Op::rdv)
                k["sense"] = inside[i] ? "inside" : "outside";
            a.push_back(std::move(k));
        }
        j[names[int(op)]] = std::move(a);
        return j;
    }
    void visit(Xf const& to_frame, unsigned ctx, XfKind worst, std::vector<PrimRef>& out) const override
    {
        for (std::size_t i = 0; i < kids.size(); ++i)
        {
            unsigned c = (ctx & ~ctx_plain) | (op == Op::any ? ctx_any : ctx_all);
            bool negated = (op == Op::rdv && !inside[i]) || (op == Op::sub && i == 1);
            if (negated)
                c |= ctx_neg;
            kids[i]->visit(to_frame, c, worst, out);
        }
    }
};

}  // namespace gb
