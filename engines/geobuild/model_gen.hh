// Engine `geobuild`: random model generator (object trees, nested units) + expected
// point location according to the documented semantics of UnitProto:
//   a unit is a region (boundary) divided into daughters (other units placed with a
//   daughter-to-parent transform), materials (homogeneous CSG objects) and an optional
//   background ("inside of exterior, outside of all mat/daughter").
// The generator only emits inputs that are valid for the API: materials and daughters are
// made disjoint *by construction* the way users write such models (region definition
// vectors that subtract the previously defined objects and the daughters' interiors).
#pragma once

#include <map>
#include <set>

#include "corecel/io/Label.hh"
#include "orange/orangeinp/UnitProto.hh"

#include "ref_solids.hh"

namespace gb
{
using celeritas::Label;

//---------------------------------------------------------------------------//
struct UnitModel;

struct Material
{
    SPNode solid;  // the user's solid S_k
    SPNode object;  // the region given to the API (S_k minus earlier solids/daughters)
    Label label;  // label expected at run time
    bool explicit_label = true;
};

struct Placement
{
    std::shared_ptr<UnitModel const> unit;
    Xf xf;  // daughter-to-parent
    SPNode interior;  // daughter boundary seen in the parent frame
};

struct UnitModel
{
    std::string label;
    double R = 1;  // boundary is inside ball(0, R)
    SPNode boundary;
    bool explicit_boundary = true;  // ZOrder::media; false = ZOrder::exterior (implicit)
    std::vector<Material> materials;
    std::vector<Placement> daughters;
    bool has_background = false;
    Label bg_label;
    bool bg_explicit_label = false;
    std::vector<PrimRef> prims;  // every primitive used in this unit, in the unit frame
    mutable std::shared_ptr<oi::UnitProto> proto;

    std::shared_ptr<oi::UnitProto> make_proto() const
    {
        if (proto)
            return proto;
        oi::UnitProto::Input inp;
        inp.label = label;
        inp.boundary.interior = boundary->object();
        inp.boundary.zorder = explicit_boundary ? celeritas::ZOrder::media : celeritas::ZOrder::exterior;
        for (auto const& d : daughters)
        {
            oi::UnitProto::DaughterInput di;
            di.fill = d.unit->make_proto();
            di.transform = d.xf.make();
            inp.daughters.push_back(std::move(di));
        }
        int fill = 1;
        for (auto const& m : materials)
        {
            oi::UnitProto::MaterialInput mi;
            mi.interior = m.object->object();
            mi.fill = celeritas::GeoMaterialId{celeritas::GeoMaterialId::size_type(fill++)};
            if (m.explicit_label)
                mi.label = m.label;
            inp.materials.push_back(std::move(mi));
        }
        if (has_background)
        {
            inp.background.fill = celeritas::GeoMaterialId{0};
            if (bg_explicit_label)
                inp.background.label = bg_label;
        }
        proto = std::make_shared<oi::UnitProto>(std::move(inp));
        return proto;
    }

    json describe() const
    {
        json j;
        j["label"] = label;
        j["boundary"] = boundary->describe();
        j["zorder"] = explicit_boundary ? "media" : "exterior";
        j["background"] = has_background;
        for (auto const& m : materials)
            j["materials"].push_back({{"label", celeritas::to_string(m.label)}, {"region", m.object->describe()}});
        for (auto const& d : daughters)
            j["daughters"].push_back({{"unit", d.unit->describe()}, {"xf", d.xf.to_json()}});
        return j;
    }
};

struct Instance
{
    UnitModel const* unit;
    Xf to_global;
    int depth;
};

struct Model
{
    std::shared_ptr<UnitModel const> global;
    celeritas::Tolerance<> tol;
    std::string tol_name;
    std::vector<Instance> instances;
    int max_depth = 0;
    double tol_eff = 0;  // max(abs, rel * extent): construction tolerance at the model's scale

    void enumerate()
    {
        instances.clear();
        Xf id;
        rec(global.get(), id, 0);
        // 1.75 R bounds every coordinate that can occur (boundary inside ball R, materials
        // may stick out by < 0.75 R)
        tol_eff = std::max(tol.abs, tol.rel * 1.75 * global->R);
    }

  private:
    void rec(UnitModel const* u, Xf const& g, int depth)
    {
        instances.push_back({u, g, depth});
        max_depth = std::max(max_depth, depth);
        for (auto const& d : u->daughters)
            rec(d.unit.get(), compose(g, d.xf), depth + 1);
    }
};

//---------------------------------------------------------------------------//
// Expected location
struct Located
{
    enum Status
    {
        ok,
        near_surface,
        ambiguous,  // more than one claimant: overlapping input (invalid)
        hole  // no claimant and no background (invalid)
    } status
        = ok;
    Label label;
    int depth = 0;
    double prox = big;
    Prim const* nearest = nullptr;
    bool exterior = false;
    UnitModel const* unit = nullptr;  // unit owning the expected volume
    Vec3 local{{0, 0, 0}};  // probe in that unit's frame
};

inline void locate_rec(UnitModel const& u, Vec3 const& p, bool is_global, int depth, Located& out)
{
    auto absorb = [&](Ev const& e) {
        if (e.prox < out.prox)
        {
            out.prox = e.prox;
            out.nearest = e.nearest;
        }
    };
    int claimants = 0;
    Placement const* into = nullptr;
    Label lab;
    bool ext = false;

    Ev b = u.boundary->eval(p);
    absorb(b);
    if (is_global && !b.in)
    {
        ++claimants;
        lab = Label{"[EXTERIOR]", u.label};
        ext = true;
    }
    for (auto const& d : u.daughters)
    {
        Ev e = d.interior->eval(p);
        absorb(e);
        if (e.in)
        {
            ++claimants;
            into = &d;
        }
    }
    for (auto const& m : u.materials)
    {
        Ev e = m.object->eval(p);
        absorb(e);
        if (e.in)
        {
            ++claimants;
            lab = m.label;
        }
    }
    if (claimants > 1)
    {
        out.status = Located::ambiguous;
        return;
    }
    if (claimants == 0)
    {
        if (!u.has_background)
        {
            out.status = Located::hole;
            return;
        }
        out.label = u.bg_label;
        out.depth = depth;
        out.unit = &u;
        out.local = p;
        return;
    }
    if (into)
    {
        locate_rec(*into->unit, into->xf.down(p), false, depth + 1, out);
        return;
    }
    out.label = lab;
    out.depth = depth;
    out.exterior = ext;
    out.unit = &u;
    out.local = p;
}

inline Located locate(Model const& m, Vec3 const& p, double near_factor)
{
    Located r;
    locate_rec(*m.global, p, true, 0, r);
    if (r.prox < near_factor * m.tol_eff)
        r.status = Located::near_surface;
    return r;
}

//---------------------------------------------------------------------------//
// GENERATOR
//---------------------------------------------------------------------------//
class Generator
{
  public:
    Generator(verif::Rng& rng, double tol_abs) : rng_(rng), tol_(tol_abs) {}

    //// transforms ////
    Xf random_rotation(XfKind k)
    {
        Xf x;
        x.kind = k;
        if (k == XfKind::rot90 || k == XfKind::reflect)
        {
            // signed permutation
            int perm[3] = {0, 1, 2};
            for (int i = 2; i > 0; --i)
                std::swap(perm[i], perm[rng_.integer(0, i)]);
            double sgn[3];
            for (auto& s : sgn)
                s = rng_.coin() ? 1 : -1;
            for (int i = 0; i < 3; ++i)
                for (int j = 0; j < 3; ++j)
                    x.R[i][j] = (perm[i] == j) ? sgn[i] : 0.0;
            double det = det3(x.R);
            bool want_neg = (k == XfKind::reflect);
            if ((det < 0) != want_neg)
                for (int j = 0; j < 3; ++j)
                    x.R[0][j] = -x.R[0][j];
            if (k == XfKind::reflect && rng_.coin(0.5))
            {
                // general rotation composed with the reflection
                Xf g = random_rotation(XfKind::rotgen);
                Xf c = compose(g, x);
                c.kind = XfKind::reflect;
                return c;
            }
            bool identity = true;
            for (int i = 0; i < 3; ++i)
                for (int j = 0; j < 3; ++j)
                    identity = identity && x.R[i][j] == (i == j ? 1.0 : 0.0);
            if (identity)
            {
                // quarter turn about z instead
                x.R[0][0] = 0; x.R[0][1] = -1; x.R[1][0] = 1; x.R[1][1] = 0;
            }
            return x;
        }
        // general rotation: random unit quaternion; sometimes a quarter turn plus a tiny
        // angle (normals within 0.1-10 tol of an axis)
        double q[4];
        if (rng_.coin(0.15))
        {
            double eps = tol_ * std::pow(10.0, rng_.uniform(-1, 1)) * (rng_.coin() ? 1 : -1);
            double ang = pi / 2 * double(rng_.integer(0, 3)) + eps;
            int ax = int(rng_.integer(0, 2));
            q[0] = std::cos(ang / 2);
            q[1] = q[2] = q[3] = 0;
            q[1 + ax] = std::sin(ang / 2);
        }
        else
        {
            double n = 0;
            for (auto& v : q)
            {
                v = rng_.normal();
                n += v * v;
            }
            n = std::sqrt(n);
            for (auto& v : q)
                v /= n;
        }
        double w = q[0], a = q[1], b = q[2], c = q[3];
        double M[3][3] = {{1 - 2 * (b * b + c * c), 2 * (a * b - c * w), 2 * (a * c + b * w)},
                          {2 * (a * b + c * w), 1 - 2 * (a * a + c * c), 2 * (b * c - a * w)},
                          {2 * (a * c - b * w), 2 * (b * c + a * w), 1 - 2 * (a * a + b * b)}};
        for (int i = 0; i < 3; ++i)
            for (int j = 0; j < 3; ++j)
                x.R[i][j] = M[i][j];
        return x;
    }

    XfKind random_xf_kind(bool allow_general = true)
    {
        double u = rng_.uniform();
        if (u < 0.45)
            return XfKind::translation;
        if (u < 0.62)
            return XfKind::rot90;
        if (u < 0.72)
            return XfKind::reflect;
        if (u < 0.78 || !allow_general)
            return XfKind::none;
        return XfKind::rotgen;
    }

    Xf random_xf(Vec3 const& c, XfKind k)
    {
        Xf x;
        if (k == XfKind::none || k == XfKind::translation)
        {
            x.kind = XfKind::translation;
        }
        else
        {
            x = random_rotation(k);
        }
        x.t = c;
        if (x.kind == XfKind::translation && c[0] == 0 && c[1] == 0 && c[2] == 0)
            x.kind = XfKind::none;
        return x;
    }

    //// coordinates that collide (coincident / near-coincident faces) ////
    void set_grid(double g) { grid_ = g; }
    double snap(double v, double p = 0.45)
    {
        if (!rng_.coin(p) || grid_ <= 0)
            return v;
        double s = std::round(v / grid_) * grid_;
        if (s == 0 && v != 0)
            s = (v > 0 ? grid_ : -grid_);
        double u = rng_.uniform();
        if (u < 0.5)
            return s;
        // 0.1 .. 10 tol away
        double d = tol_ * std::pow(10.0, rng_.uniform(-1, 1));
        return s + (rng_.coin() ? d : -d);
    }
    // positive size in [lo, hi], possibly snapped onto (or next to) a grid line of this
    // unit or of the parent unit when that stays inside the interval
    double size(double lo, double hi)
    {
        double v = rng_.uniform(lo, hi);
        double saved = grid_;
        if (parent_grid_ > 0 && rng_.coin(0.3))
            grid_ = parent_grid_;
        double s = snap(v);
        grid_ = saved;
        return (s >= lo && s <= hi) ? s : v;
    }
    void set_parent_grid(double g) { parent_grid_ = g; }
    // involutes cannot be transformed ("transformed involutes" not implemented) and the
    // runtime of this configuration rejects them: only for C19 inputs
    void allow_involute(bool b) { allow_involute_ = b; }

    std::string next_label(std::string const& prefix)
    {
        return prefix + std::to_string(counter_++);
    }

    //// primitives, bounding radius <= about s ////
    std::shared_ptr<Prim> gen_prim(double s, int force_kind = -1)
    {
        static double const weights[] = {3, 2, 2, 2.5, 1.5, 1.5, 2, 3, 3.5, 1.5, 1, 0.4};
        int k = force_kind;
        if (k < 0)
        {
            double tot = 0;
            for (double w : weights)
                tot += w;
            double u = rng_.uniform(0, tot);
            k = 0;
            while (k + 1 < int(sizeof(weights) / sizeof(weights[0])) && u >= weights[k])
            {
                u -= weights[k];
                ++k;
            }
        }
        if (k == 11 && !allow_involute_)
            k = 0;
        if (composite_mode_ && k == 6)
            k = 0;  // parallelepiped -> box
        std::shared_ptr<Prim> p;
        double q = s / std::sqrt(3.0);
        switch (k)
        {
            case 0:
            {
                p = std::make_shared<PBox>(next_label("box"),
                                           Vec3{{size(0.3 * q, q), size(0.3 * q, q), size(0.3 * q, q)}});
                break;
            }
            case 1: p = std::make_shared<PSphere>(next_label("sph"), size(0.4 * s, s)); break;
            case 2:
                p = std::make_shared<PCyl>(next_label("cyl"), size(0.3 * s, 0.7 * s), size(0.3 * s, 0.7 * s));
                break;
            case 3:
            {
                double lo = size(0.2 * s, 0.7 * s), hi = size(0.2 * s, 0.7 * s);
                double u = rng_.uniform();
                if (u < 0.3)
                    (rng_.coin() ? lo : hi) = 0;  // vanishing point on one end
                if (lo == hi)
                    hi = 0.5 * lo;
                p = std::make_shared<PCone>(next_label("cone"), lo, hi, size(0.3 * s, 0.7 * s));
                break;
            }
            case 4:
                if (composite_mode_ && 0.3 * s < 0.5)
                {
                    p = std::make_shared<PSphere>(next_label("sph"), size(0.4 * s, s));
                    break;
                }
                if (!composite_mode_ && rng_.coin(0.3))
                {
                    // small ellipsoid on its own (radii of a few hundredths of a length unit)
                    p = std::make_shared<PEllipsoid>(
                        next_label("ell"),
                        Vec3{{rng_.uniform(0.008, 0.09), rng_.uniform(0.008, 0.09), rng_.uniform(0.008, 0.09)}});
                    break;
                }
                p = std::make_shared<PEllipsoid>(
                    next_label("ell"), Vec3{{size(0.3 * s, s), size(0.3 * s, s), size(0.3 * s, s)}});
                break;
            case 5:
            {
                int n = int(rng_.integer(3, 8));
                double a = size(0.25 * s, 0.45 * s);  // circumradius <= 2a
                double orient = rng_.coin(0.4) ? 0.0 : (rng_.coin(0.4) ? 0.5 : rng_.uniform(0, 0.999));
                p = std::make_shared<PPrism>(next_label("prism"), n, a, size(0.3 * s, 0.7 * s), orient);
                break;
            }
            case 6:
            {
                double alpha = rng_.coin(0.2) ? 0.0 : rng_.uniform(-0.15, 0.15);
                double theta = rng_.coin(0.3) ? 0.0 : rng_.uniform(0, 0.12);
                double phi = rng_.coin(0.3) ? 0.0 : rng_.uniform(0, 0.999);
                double h = 0.5 * q;
                p = std::make_shared<PPara>(next_label("para"),
                                            Vec3{{size(0.4 * h, h), size(0.4 * h, h), size(0.4 * h, h)}},
                                            alpha, theta, phi);
                break;
            }
            case 7: p = gen_genprism(s); break;
            case 8: p = gen_solid_prim(s); break;
            case 9: p = gen_poly(s, false); break;
            case 10: p = gen_poly(s, true); break;
            default:
            {
                double rb = rng_.uniform(0.15, 0.3) * s;
                double rin = rb * rng_.uniform(1.2, 2.0);
                double rout = std::min(rin * rng_.uniform(1.3, 2.2), s);
                double a0 = rng_.uniform(0, twopi);
                double a1 = a0 + rng_.uniform(0.1, 0.4) * pi;
                p = std::make_shared<PInvolute>(next_label("inv"), rb, rin, rout, a0, a1, size(0.3 * s, 0.7 * s));
                break;
            }
        }
        p->rad = s;
        return p;
    }

    std::shared_ptr<Prim> gen_genprism(double s)
    {
        auto g = std::make_shared<PGenPrism>(next_label("gp"), size(0.3 * s, 0.55 * s));
        double h = 0.55 * s;
        double u = rng_.uniform();
        if (u < 0.2)
        {
            g->via = PGenPrism::Via::trd;
            g->trd_lo = {size(0.3 * h, h), size(0.3 * h, h)};
            g->trd_hi = {size(0.3 * h, h), size(0.3 * h, h)};
            auto& lo = g->trd_lo;
            auto& hi = g->trd_hi;
            g->lo = {{lo[0], -lo[1]}, {lo[0], lo[1]}, {-lo[0], lo[1]}, {-lo[0], -lo[1]}};
            g->hi = {{hi[0], -hi[1]}, {hi[0], hi[1]}, {-hi[0], hi[1]}, {-hi[0], -hi[1]}};
        }
        else if (u < 0.4)
        {
            // G4Trap (the construction the from_trap documentation refers to): faces at
            // -hz/+hz are trapezoids with half-height hy, half-lengths hx_lo at y=-hy and
            // hx_hi at y=+hy, sheared by alpha; face centres displaced by
            // +-hz tan(theta) (cos phi, sin phi)
            g->via = PGenPrism::Via::trap;
            double hh = 0.5 * h;
            g->trap_theta = rng_.coin(0.3) ? 0.0 : rng_.uniform(0, 0.08);
            g->trap_phi = rng_.coin(0.3) ? 0.0 : rng_.uniform(0, 0.999);
            // equal shear and proportional faces keep the side faces planar (G4Trap
            // requirement); otherwise twisted faces result, which GenPrism allows
            bool planar = rng_.coin(0.6);
            double alpha = rng_.coin(0.3) ? 0.0 : rng_.uniform(-0.1, 0.1);
            double hy = size(0.4 * hh, hh), hxl = size(0.4 * hh, hh), hxh = size(0.4 * hh, hh);
            double f = rng_.uniform(0.6, 1.4);
            g->trap_lo = {hy, hxl, hxh, alpha};
            if (planar)
                g->trap_hi = {hy * f, hxl * f, hxh * f, alpha};
            else
                g->trap_hi = {size(0.4 * hh, hh), size(0.4 * hh, hh), size(0.4 * hh, hh),
                              alpha + rng_.uniform(-0.02, 0.02)};
            double tth = std::tan(twopi * g->trap_theta);
            double dx = g->hz * tth * std::cos(twopi * g->trap_phi), dy = g->hz * tth * std::sin(twopi * g->trap_phi);
            auto face = [&](std::array<double, 4> const& t, double sgn) {
                double sh = std::tan(twopi * t[3]) * t[0];
                double xo = sgn * dx, yo = sgn * dy;
                return std::vector<std::array<double, 2>>{{xo - sh + t[1], yo - t[0]},
                                                          {xo + sh + t[2], yo + t[0]},
                                                          {xo + sh - t[2], yo + t[0]},
                                                          {xo - sh - t[1], yo - t[0]}};
            };
            g->lo = face(g->trap_lo, -1);
            g->hi = face(g->trap_hi, +1);
        }
        else
        {
            // convex polygon with n vertices on an ellipse, counterclockwise or clockwise
            int n = int(rng_.integer(3, 6));
            double a = size(0.4 * h, h), b = size(0.4 * h, h);
            std::vector<double> ang(n);
            double phi0 = rng_.uniform(0, twopi);
            for (int i = 0; i < n; ++i)
                ang[i] = phi0 + twopi * (i + rng_.uniform(-0.25, 0.25)) / n;
            double scale = rng_.uniform(0.5, 1.0);
            double twist = 0;
            double v = rng_.uniform();
            if (v < 0.3)
                twist = 0;
            else if (v < 0.55)
                twist = composite_mode_ ? 0.0 : std::pow(10.0, rng_.uniform(-7, -3));  // nearly planar faces
            else
                twist = rng_.uniform(0.02, 0.5);
            if (rng_.coin())
                twist = -twist;
            bool apex = rng_.coin(0.12);
            double ox = rng_.coin(0.5) ? 0.0 : rng_.uniform(-0.2, 0.2) * h;
            for (int i = 0; i < n; ++i)
            {
                g->lo.push_back({a * std::cos(ang[i]), b * std::sin(ang[i])});
                if (apex)
                    g->hi.push_back({ox, 0.0});
                else
                    g->hi.push_back({ox + scale * a * std::cos(ang[i] + twist),
                                     scale * b * std::sin(ang[i] + twist)});
            }
            if (rng_.coin(0.3))
            {
                std::reverse(g->lo.begin(), g->lo.end());
                std::reverse(g->hi.begin(), g->hi.end());
            }
            if (rng_.coin(0.2))
                std::swap(g->lo, g->hi);
        }
        g->finalize();
        return g;
    }

    std::shared_ptr<Prim> gen_solid_prim(double s)
    {
        auto k = PSolid::K(rng_.integer(0, 3));
        auto p = std::make_shared<PSolid>(next_label("sol"), k);
        bool hollow = rng_.coin(0.6);
        bool angle = !hollow || rng_.coin(0.6);
        p->hollow = hollow;
        double f = rng_.uniform(0.3, 0.85);
        switch (k)
        {
            case PSolid::K::cone:
            {
                double lo = size(0.25 * s, 0.7 * s), hi = size(0.25 * s, 0.7 * s);
                if (lo == hi)
                    hi *= 0.6;
                double hh = size(0.3 * s, 0.7 * s);
                p->in_ = {lo, hi, hh};
                double elo = snap(lo * f), ehi = snap(hi * rng_.uniform(0.3, 0.85));
                if (rng_.coin(0.2))
                    elo = 0;
                elo = std::min(elo, lo);
                ehi = std::min(ehi, hi);
                if (elo == ehi)
                    ehi *= 0.5;
                p->ex_ = {elo, ehi, rng_.coin(0.7) ? hh : hh * rng_.uniform(0.4, 0.9)};
                break;
            }
            case PSolid::K::cyl:
            {
                double r = size(0.3 * s, 0.7 * s), hh = size(0.3 * s, 0.7 * s);
                p->in_ = {r, hh, 0};
                p->ex_ = {std::min(snap(r * f), r), rng_.coin(0.7) ? hh : hh * rng_.uniform(0.4, 0.9), 0};
                break;
            }
            case PSolid::K::prism:
            {
                p->n = int(rng_.integer(3, 8));
                p->orient = rng_.coin(0.5) ? 0.0 : rng_.uniform(0, 0.999);
                double a = size(0.25 * s, 0.45 * s), hh = size(0.3 * s, 0.7 * s);
                p->in_ = {a, hh, 0};
                p->ex_ = {std::min(snap(a * f), a), rng_.coin(0.7) ? hh : hh * rng_.uniform(0.4, 0.9), 0};
                break;
            }
            case PSolid::K::sphere:
            {
                double r = size(0.4 * s, s);
                p->in_ = {r, 0, 0};
                p->ex_ = {std::min(snap(r * f), r), 0, 0};
                break;
            }
        }
        if (angle)
            p->ang = random_angle();
        p->finalize();
        return p;
    }

    Angle random_angle()
    {
        Angle a;
        double u = rng_.uniform();
        if (u < 0.3)
            a.start = 0.25 * double(rng_.integer(-4, 4));
        else
            a.start = rng_.uniform(-1, 1);
        double v = rng_.uniform();
        if (v < 0.2)
            a.interior = 0.5;  // half turn
        else if (v < 0.4)
            a.interior = 0.25 * double(rng_.integer(1, 3));
        else
            a.interior = rng_.uniform(0.05, 0.95);
        return a;
    }

    std::shared_ptr<Prim> gen_poly(double s, bool prism)
    {
        auto p = std::make_shared<PPoly>(next_label(prism ? "pp" : "pc"), prism);
        int nseg = int(rng_.integer(1, 4));
        bool hollow = rng_.coin(0.5);
        double z = -0.6 * s;
        double dz = 1.2 * s / nseg;
        double rmax = prism ? 0.4 * s : 0.75 * s;
        p->skip_tol = 0;
        if (prism)
        {
            p->n = int(rng_.integer(3, 8));
            p->orient = rng_.coin(0.5) ? 0.0 : rng_.uniform(0, 0.999);
            // constant apothem per segment; radius changes need a zero-height step
            for (int i = 0; i < nseg; ++i)
            {
                double r = size(0.35 * rmax, rmax);
                double ri = r * rng_.uniform(0.3, 0.8);
                double z1 = snap(z + dz * rng_.uniform(0.6, 1.0));
                if (!(z1 > z + 0.1 * dz))
                    z1 = z + dz;
                p->z.push_back(z);
                p->z.push_back(z1);
                p->outer.push_back(r);
                p->outer.push_back(r);
                if (hollow)
                {
                    p->inner.push_back(ri);
                    p->inner.push_back(ri);
                }
                z = z1;
            }
        }
        else
        {
            p->z.push_back(z);
            double r = size(0.2 * rmax, rmax);
            p->outer.push_back(r);
            if (hollow)
                p->inner.push_back(r * rng_.uniform(0.2, 0.8));
            for (int i = 0; i < nseg; ++i)
            {
                double u = rng_.uniform();
                if (u < 0.25 && i > 0)
                {
                    // radius step at constant z (zero-height segment)
                    p->z.push_back(z);
                    double r2 = size(0.2 * rmax, rmax);
                    p->outer.push_back(r2);
                    if (hollow)
                        p->inner.push_back(r2 * rng_.uniform(0.2, 0.8));
                }
                double z1 = snap(z + dz * rng_.uniform(0.6, 1.0));
                if (!(z1 > z + 0.1 * dz))
                    z1 = z + dz;
                double r1 = (rng_.coin(0.35)) ? p->outer.back() : size(0.2 * rmax, rmax);
                p->z.push_back(z1);
                p->outer.push_back(r1);
                if (hollow)
                {
                    double ri = rng_.coin(0.35) ? std::min(p->inner.back(), r1 * 0.9) : r1 * rng_.uniform(0.2, 0.8);
                    if (rng_.coin(0.1) && p->inner.back() > 0)
                        ri = 0;
                    p->inner.push_back(ri);
                }
                z = z1;
            }
        }
        if (rng_.coin(0.5))
            p->ang = random_angle();
        p->finalize();
        return p;
    }

    //// random object tree positioned around c, extent about s ////
    SPNode gen_tree(Vec3 const& c, double s, int depth, int& leaves_left, bool allow_general = true)
    {
        double u = rng_.uniform();
        bool leaf = depth >= 3 || leaves_left <= 1 || u < (depth == 0 ? 0.35 : 0.55);
        if (leaf)
        {
            --leaves_left;
            if (rng_.coin(0.07))
            {
                // wedge cut out of a finite body
                auto w = std::make_shared<PWedge>(next_label("wedge"),
                                                  rng_.coin(0.3) ? 0.25 * double(rng_.integer(0, 3)) : rng_.uniform(0, 0.999),
                                                  rng_.coin(0.3) ? 0.5 : rng_.uniform(0.05, 0.5));
                w->rad = s;
                auto body = gen_prim(s, int(rng_.integer(1, 2)));
                auto j = std::make_shared<NJoin>(next_label("wcut"), NJoin::Op::all);
                j->kids = {body, w};
                return place(j, c, allow_general);
            }
            if (allow_general && rng_.coin(0.08))
            {
                // Mirror-image pair: the same primitive rotated by +theta and -theta about one
                // axis through c (a stereo "X"/"V").  Their quadrics differ ONLY in the cross
                // terms (cylinders, cones) or are reflections of each other's plane sets; this
                // is the input on which soft surface de-duplication must keep them apart.
                auto prim = gen_prim(0.8 * s, int(rng_.integer(2, 3)));
                int ax = int(rng_.integer(0, 2));
                int a1 = (ax + 1) % 3, a2 = (ax + 2) % 3;
                double th = rng_.coin(0.3) ? 0.7853981633974483 : rng_.uniform(0.1, 1.3);
                bool centre_on_axis = rng_.coin(0.6);
                auto j = std::make_shared<NJoin>(next_label("mirror"), rng_.coin(0.6) ? NJoin::Op::any : NJoin::Op::rdv);
                for (int sgn = 1; sgn >= -1; sgn -= 2)
                {
                    Xf x;
                    x.kind = XfKind::rotgen;
                    double cs = std::cos(th), sn = std::sin(sgn * th);
                    for (int r = 0; r < 3; ++r)
                        for (int q2 = 0; q2 < 3; ++q2)
                            x.R[r][q2] = (r == q2) ? 1.0 : 0.0;
                    x.R[a1][a1] = cs;
                    x.R[a1][a2] = -sn;
                    x.R[a2][a1] = sn;
                    x.R[a2][a2] = cs;
                    // centre on the rotation axis of the unit frame (half of the time): then
                    // the two quadrics have identical second-order diagonal, first-order and
                    // constant terms and differ only in the sign of one cross term
                    x.t = c;
                    if (centre_on_axis)
                    {
                        x.t[a1] = 0;
                        x.t[a2] = 0;
                    }
                    j->kids.push_back(std::make_shared<NTransformed>(prim, x));
                    j->inside.push_back(sgn == 1 ? true : rng_.coin(0.6));
                }
                return j;
            }
            return place(gen_prim(s), c, allow_general);
        }
        int op = int(rng_.integer(0, 3));
        auto j = std::make_shared<NJoin>(next_label(op == 0 ? "any" : op == 1 ? "all" : op == 2 ? "rdv" : "sub"),
                                         NJoin::Op(op));
        int nk = (op == 3) ? 2 : int(rng_.integer(2, 3));
        double spread = (op == 0) ? 0.6 * s : 0.3 * s;
        for (int i = 0; i < nk && (leaves_left > 0 || i < 2); ++i)
        {
            Vec3 cc{{snap(c[0] + rng_.uniform(-spread, spread)),
                     snap(c[1] + rng_.uniform(-spread, spread)),
                     snap(c[2] + rng_.uniform(-spread, spread))}};
            double ss = s * rng_.uniform(0.55, 0.9);
            j->kids.push_back(gen_tree(cc, ss, depth + 1, leaves_left, allow_general));
            j->inside.push_back(i == 0 ? true : rng_.coin(0.5));
        }
        if (rng_.coin(0.15))
        {
            // wrap the composite in a further transform (rotation about its centre)
            XfKind k = random_xf_kind(allow_general);
            if (k != XfKind::none && k != XfKind::translation)
            {
                Xf r = random_rotation(k);
                // rotate about c: p -> R (p - c) + c
                Vec3 rc = r.up(c);
                r.t = {{c[0] - rc[0], c[1] - rc[1], c[2] - rc[2]}};
                return std::make_shared<NTransformed>(j, r);
            }
        }
        return j;
    }

    SPNode place(SPNode n, Vec3 const& c, bool allow_general)
    {
        if (auto const* pr = dynamic_cast<Prim const*>(n.get()))
            if (pr->kind == "involute")
                return n;
        XfKind k = random_xf_kind(allow_general);
        Xf x = random_xf(c, k);
        if (x.kind == XfKind::none)
            return n;
        return std::make_shared<NTransformed>(std::move(n), x);
    }

    //// units ////
    // boundary inside ball(0,R) and containing the cube of half-width 0.3 R
    SPNode gen_boundary(double R, bool rotation_safe)
    {
        double u = rng_.uniform();
        std::shared_ptr<Prim> p;
        if (rotation_safe)
        {
            // shapes whose exterior bounding box stays finite under a general rotation
            if (u < 0.5)
                p = std::make_shared<PSphere>(next_label("bsph"), size(0.56 * R, 0.98 * R));
            else if (u < 0.8 && !(composite_mode_ && 0.56 * R < 0.5))
                p = std::make_shared<PEllipsoid>(
                    next_label("bell"),
                    Vec3{{size(0.56 * R, 0.98 * R), size(0.56 * R, 0.98 * R), size(0.56 * R, 0.98 * R)}});
            else
            {
                auto g = std::make_shared<PGenPrism>(next_label("bgp"), size(0.53 * R, 0.56 * R));
                g->via = PGenPrism::Via::trd;
                g->trd_lo = {size(0.53 * R, 0.56 * R), size(0.53 * R, 0.56 * R)};
                g->trd_hi = {size(0.53 * R, 0.56 * R), size(0.53 * R, 0.56 * R)};
                auto& lo = g->trd_lo;
                auto& hi = g->trd_hi;
                g->lo = {{lo[0], -lo[1]}, {lo[0], lo[1]}, {-lo[0], lo[1]}, {-lo[0], -lo[1]}};
                g->hi = {{hi[0], -hi[1]}, {hi[0], hi[1]}, {-hi[0], hi[1]}, {-hi[0], -hi[1]}};
                g->finalize();
                p = g;
            }
            p->rad = R;
            return p;
        }
        if (u < 0.35)
            p = std::make_shared<PBox>(next_label("bbox"),
                                       Vec3{{size(0.53 * R, 0.575 * R), size(0.53 * R, 0.575 * R), size(0.53 * R, 0.575 * R)}});
        else if (u < 0.5)
            p = std::make_shared<PSphere>(next_label("bsph"), size(0.56 * R, 0.98 * R));
        else if (u < 0.65)
            p = std::make_shared<PCyl>(next_label("bcyl"), size(0.55 * R, 0.7 * R), size(0.55 * R, 0.7 * R));
        else if (u < 0.75 && !(composite_mode_ && 0.56 * R < 0.5))
            p = std::make_shared<PEllipsoid>(
                next_label("bell"),
                Vec3{{size(0.56 * R, 0.98 * R), size(0.56 * R, 0.98 * R), size(0.56 * R, 0.98 * R)}});
        else if (u < 0.85)
            p = std::make_shared<PPrism>(next_label("bprism"), int(rng_.integer(4, 8)), size(0.55 * R, 0.6 * R),
                                         size(0.53 * R, 0.6 * R), rng_.coin() ? 0.0 : rng_.uniform(0, 0.999));
        else if (u < 0.93)
            p = std::make_shared<PCone>(next_label("bcone"), size(0.6 * R, 0.75 * R), size(0.6 * R, 0.75 * R) * 1.001,
                                        size(0.53 * R, 0.6 * R));
        else
        {
            // union boundary (two overlapping bodies)
            auto a = std::make_shared<PSphere>(next_label("bsph"), size(0.56 * R, 0.8 * R));
            a->rad = R;
            auto b = std::make_shared<PBox>(next_label("bbox"),
                                            Vec3{{size(0.53 * R, 0.575 * R), size(0.53 * R, 0.575 * R), size(0.53 * R, 0.575 * R)}});
            b->rad = R;
            auto j = std::make_shared<NJoin>(next_label("bunion"), NJoin::Op::any);
            j->kids = {a, b};
            return j;
        }
        p->rad = R;
        return p;
    }

    std::shared_ptr<UnitModel> gen_unit(int level, int max_level, double R, bool rotation_safe, bool single = false)
    {
        if (level == 0)
            composite_mode_ = !single;
        auto u = std::make_shared<UnitModel>();
        u->label = next_label(level == 0 ? "global" : "unit");
        u->R = R;
        set_grid(R / 16);
        u->boundary = gen_boundary(R, rotation_safe);
        u->explicit_boundary = rng_.coin(0.6);
        u->has_background = !u->explicit_boundary || rng_.coin(0.4);

        // daughters in disjoint slots: cubes of half-width 0.11 R centred at (+-0.18 R)^3
        int nd = 0;
        if (level < max_level && !single)
            nd = int(rng_.integer(level == 0 ? 1 : 0, 3));
        std::vector<int> slots{0, 1, 2, 3, 4, 5, 6, 7};
        std::shared_ptr<UnitModel const> reuse;
        for (int i = 0; i < nd; ++i)
        {
            int si = int(rng_.integer(0, std::int64_t(slots.size()) - 1));
            int slot = slots[si];
            slots.erase(slots.begin() + si);
            Vec3 c{{(slot & 1 ? 0.1875 : -0.1875) * R, (slot & 2 ? 0.1875 : -0.1875) * R, (slot & 4 ? 0.1875 : -0.1875) * R}};
            XfKind k = random_xf_kind(true);
            Placement pl;
            bool general = (k == XfKind::rotgen || k == XfKind::reflect);
            if (reuse && rng_.coin(0.5))
            {
                pl.unit = reuse;  // second instance of the same universe
                if (general)
                    k = XfKind::rot90;
            }
            else
            {
                double saved_grid = grid_, saved_parent = parent_grid_;
                set_parent_grid(saved_grid);
                pl.unit = gen_unit(level + 1, max_level, 0.11 * R, general);
                set_grid(saved_grid);
                set_parent_grid(saved_parent);
                if (!general && !reuse)
                    reuse = pl.unit;
            }
            pl.xf = random_xf(c, k);
            if (pl.xf.kind == XfKind::none)
                pl.interior = pl.unit->boundary;
            else
                pl.interior = std::make_shared<NTransformed>(pl.unit->boundary, pl.xf);
            u->daughters.push_back(std::move(pl));
        }

        // materials: solids anywhere inside, complemented against earlier ones
        int nm = single ? 1 : int(rng_.integer(1, 4));
        std::vector<SPNode> solids;
        for (int i = 0; i < nm; ++i)
        {
            int leaves = single ? 1 : int(rng_.integer(1, std::max<std::int64_t>(1, 12 / nm)));
            double s = R * rng_.uniform(0.15, 0.45);
            double span = 0.5 * R - 0.5 * s;
            Vec3 c{{snap(rng_.uniform(-span, span)), snap(rng_.uniform(-span, span)), snap(rng_.uniform(-span, span))}};
            if (single)
                c = {{snap(rng_.uniform(-0.1, 0.1) * R, 0.2), snap(rng_.uniform(-0.1, 0.1) * R, 0.2), 0}};
            SPNode sk = gen_tree(c, s, single ? 3 : 0, leaves);
            Material m;
            m.solid = sk;
            std::string mname = "m" + std::to_string(i);
            auto rdv = std::make_shared<NJoin>(u->label + "." + mname, NJoin::Op::rdv);
            rdv->kids.push_back(sk);
            rdv->inside.push_back(true);
            if (u->explicit_boundary)
            {
                rdv->kids.push_back(u->boundary);
                rdv->inside.push_back(true);
            }
            for (auto const& prev : solids)
            {
                rdv->kids.push_back(prev);
                rdv->inside.push_back(false);
            }
            for (auto const& d : u->daughters)
            {
                rdv->kids.push_back(d.interior);
                rdv->inside.push_back(false);
            }
            if (rdv->kids.size() == 1)
                m.object = sk;
            else
                m.object = rdv;
            m.explicit_label = rng_.coin(0.7);
            // default label = the object's label; at run time a label without extension is
            // given the unit's name as extension (UnitInserter)
            m.label = m.explicit_label ? Label{mname, u->label} : Label{m.object->label, u->label};
            solids.push_back(sk);
            u->materials.push_back(std::move(m));
        }
        if (!u->has_background)
        {
            // remainder of the boundary's interior as an explicit material
            Material m;
            auto rdv = std::make_shared<NJoin>(u->label + ".rest", NJoin::Op::rdv);
            rdv->kids.push_back(u->boundary);
            rdv->inside.push_back(true);
            for (auto const& prev : solids)
            {
                rdv->kids.push_back(prev);
                rdv->inside.push_back(false);
            }
            for (auto const& d : u->daughters)
            {
                rdv->kids.push_back(d.interior);
                rdv->inside.push_back(false);
            }
            m.solid = rdv;
            m.object = rdv;
            m.label = Label{"rest", u->label};
            u->materials.push_back(std::move(m));
        }
        else
        {
            u->bg_explicit_label = rng_.coin(0.5);
            u->bg_label = u->bg_explicit_label ? Label{"fill", u->label} : Label{u->label, "bg"};
        }

        // register all primitives of this unit
        Xf id;
        u->boundary->visit(id, ctx_plain, XfKind::none, u->prims);
        for (auto const& d : u->daughters)
            d.interior->visit(id, ctx_plain, XfKind::none, u->prims);
        for (auto const& m : u->materials)
            m.object->visit(id, ctx_plain, XfKind::none, u->prims);
        return u;
    }

  private:
    static double det3(double const R[3][3])
    {
        return R[0][0] * (R[1][1] * R[2][2] - R[1][2] * R[2][1]) - R[0][1] * (R[1][0] * R[2][2] - R[1][2] * R[2][0])
               + R[0][2] * (R[1][0] * R[2][1] - R[1][1] * R[2][0]);
    }

    verif::Rng& rng_;
    double tol_;
    double grid_ = 0;
    double parent_grid_ = 0;
    bool allow_involute_ = false;
    // Multi-object models keep out the three inputs with known upstream construction defects
    // (small ellipsoids, parallelepipeds, nearly untwisted GenPrism faces): there the culprit
    // cannot be attributed reliably, so they are exercised only in single-primitive models
    // where the violation key names the primitive (known_findings.json lists exactly those).
    bool composite_mode_ = false;
    int counter_ = 0;
};

}  // namespace gb
