// Engine `geobuild`: properties C09 (geometry construction preserves the meaning of the
// user's solids) and C19 (geometry input survives a JSON round trip unchanged).
//
// C09  real code : orangeinp object API -> UnitProto -> InputBuilder -> OrangeInput ->
//                  OrangeParams -> OrangeTrackView initialisation (host)
//      oracle    : analytic point membership of the user's object tree (ref_solids.hh),
//                  composed per the documented unit semantics (model_gen.hh)
// C19  real code : operator<< / operator>> for OrangeInput, to_json/from_json (also the
//                  orange-update path), OrangeParams(OrangeInput)
//      oracle    : own deep comparator (input_compare.hh), byte-wise idempotence,
//                  label maps + bit-identical navigation traces of OrangeParams(A) vs (B)
#include <filesystem>
#include <fstream>
#include <functional>
#include <optional>
#include <sstream>

#include <poll.h>
#include <signal.h>
#include <sys/resource.h>
#include <sys/wait.h>
#include <unistd.h>

#include <nlohmann/json.hpp>

#include "corecel/Assert.hh"
#include "corecel/data/CollectionStateStore.hh"
#include "corecel/io/Label.hh"
#include "orange/OrangeData.hh"
#include "orange/OrangeInput.hh"
#include "orange/OrangeInputIO.json.hh"
#include "orange/OrangeParams.hh"
#include "orange/OrangeTrackView.hh"
#include "orange/orangeinp/InputBuilder.hh"

#include "input_compare.hh"
#include "model_gen.hh"
#include "ref_solids.hh"
#include "verif_celer.hh"
#include "verif_common.hh"

using namespace celeritas;
using verif::json;
using gb::Vec3;

namespace
{
//---------------------------------------------------------------------------//
using HostStateStore = CollectionStateStore<OrangeStateData, MemSpace::host>;

std::string repo_root()
{
    char const* r = std::getenv("VERIF_REPO");
    return r ? r : "/repo";
}

struct Stopwatch
{
    std::map<std::string, double> acc;
    std::chrono::steady_clock::time_point t0 = std::chrono::steady_clock::now();
    void lap(std::string const& k)
    {
        auto t1 = std::chrono::steady_clock::now();
        acc[k] += std::chrono::duration<double>(t1 - t0).count();
        t0 = t1;
    }
};

std::string lab_str(Label const& l)
{
    return l.ext.empty() ? l.name : l.name + "@" + l.ext;
}

//---------------------------------------------------------------------------//
// Model construction for one case index
gb::Model make_model(verif::Rng& rng, bool single, bool involutes = false)
{
    gb::Model m;
    // construction tolerance: default sqrt(eps) or a user-specified one
    double u = rng.uniform();
    if (u < 0.55)
    {
        m.tol = Tolerance<>::from_default();
        m.tol_name = "default";
    }
    else if (u < 0.7)
    {
        m.tol = Tolerance<>::from_relative(1e-6);
        m.tol_name = "rel1e-6";
    }
    else if (u < 0.8)
    {
        m.tol = Tolerance<>::from_relative(1e-5);
        m.tol_name = "rel1e-5";
    }
    else if (u < 0.9)
    {
        m.tol = Tolerance<>::from_default(10.0);
        m.tol_name = "default-len10";
    }
    else
    {
        m.tol = Tolerance<>::from_relative(1e-7, 0.1);
        m.tol_name = "rel1e-7-len0.1";
    }
    static double const radii[] = {1.0, 2.0, 5.0, 20.0};
    double R = radii[rng.integer(0, 3)];
    double tol_eff = std::max(m.tol.abs, m.tol.rel * 1.75 * R);
    gb::Generator gen(rng, tol_eff);
    gen.allow_involute(involutes);
    int max_level = single ? 0 : int(rng.integer(0, 2));
    m.global = gen.gen_unit(0, max_level, R, false, single);
    m.enumerate();
    return m;
}

struct BuildResult
{
    std::optional<OrangeInput> input;
    std::string why;  // rejection reason
    bool bounds_violation = false;
    std::string bounds_key;
};

BuildResult build_input(gb::Model const& m, std::string const& prop)
{
    BuildResult r;
    try
    {
        auto proto = m.global->make_proto();
        orangeinp::InputBuilder::Options opts;
        opts.tol = m.tol;
        orangeinp::InputBuilder build(std::move(opts));
        OrangeInput inp = build(*proto);
        // Documented preconditions not enforced in the plain build: every universe must
        // have a finite bounding box (CELER_ENSURE(is_finite(result.bbox)) in
        // UnitProto::build, CELER_EXPECT(!bbox || is_finite(bbox)) for daughter extents)
        for (auto const& u : inp.universes)
        {
            auto const& ui = std::get<UnitInput>(u);
            if (!ui.bbox || !is_finite(ui.bbox))
            {
                r.why = "rejected input: universe without finite bounding box";
                return r;
            }
        }
        r.input = std::move(inp);
    }
    catch (RuntimeError const& e)
    {
        std::string w = e.details().what;
        r.why = "rejected input: " + w.substr(0, 60);
    }
    catch (DebugError const& e)
    {
        if (verif::is_bounds_assertion(e))
        {
            r.bounds_violation = true;
            r.bounds_key = verif::bounds_key(prop, e);
            r.why = e.what();
        }
        else
        {
            r.why = "debug-assert: " + verif::describe(e);
        }
    }
    return r;
}

//---------------------------------------------------------------------------//
// Pre-flight: constructions are first run in a forked child, so that a crash (stack
// overflow, abort) or a hang inside the library is *observed* as the outcome of a case
// instead of killing the engine.  A batch of bodies runs in one child which reports the
// index it is about to start through a pipe; after a crash the batch resumes behind the
// crashing index.
enum class Flight : int
{
    ok = 0,
    crashed,
    hung
};

struct FlightInfo
{
    Flight flight = Flight::ok;
    int stage = 0;  // last stage marker reached by the body before it died
};
using MarkFn = std::function<void(int)>;

std::vector<FlightInfo>
preflight_stages(std::size_t n, std::function<void(std::size_t, MarkFn const&)> const& body, int timeout_s = 120)
{
    std::vector<FlightInfo> status(n);
    if (std::getenv("GEOBUILD_NO_PREFLIGHT"))
        return status;
    std::size_t start = 0;
    while (start < n)
    {
        int fd[2];
        if (pipe(fd) != 0)
            return status;
        std::cout.flush();
        std::cerr.flush();
        pid_t pid = fork();
        if (pid < 0)
        {
            close(fd[0]);
            close(fd[1]);
            return status;  // cannot fork: run unprotected
        }
        if (pid == 0)
        {
            close(fd[0]);
            // runaway recursion should hit the limit quickly
            struct rlimit rl;
            if (getrlimit(RLIMIT_STACK, &rl) == 0)
            {
                rlim_t want = 1u << 20;
                if (rl.rlim_cur == RLIM_INFINITY || rl.rlim_cur > want)
                {
                    rl.rlim_cur = want;
                    setrlimit(RLIMIT_STACK, &rl);
                }
            }
            struct rlimit core{0, 0};
            setrlimit(RLIMIT_CORE, &core);
            for (std::size_t i = start; i < n; ++i)
            {
                MarkFn mark = [&](int stage) {
                    std::int64_t v = std::int64_t(i) * 16 + stage;
                    if (write(fd[1], &v, sizeof v) != sizeof v)
                        _exit(0);
                };
                mark(0);
                try
                {
                    body(i, mark);
                }
                catch (...)
                {
                }
            }
            std::int64_t done = -1;
            (void)!write(fd[1], &done, sizeof done);
            _exit(0);
        }
        close(fd[1]);
        std::int64_t last = -2;
        bool hung = false;
        for (;;)
        {
            struct pollfd pfd{fd[0], POLLIN, 0};
            int pr = poll(&pfd, 1, timeout_s * 1000);
            if (pr == 0)
            {
                hung = true;
                kill(pid, SIGKILL);
                break;
            }
            std::int64_t v;
            ssize_t got = read(fd[0], &v, sizeof v);
            if (got != sizeof v)
                break;  // EOF: child finished or died
            last = v;
        }
        close(fd[0]);
        int wst = 0;
        waitpid(pid, &wst, 0);
        if (last == -1 && !hung)
            break;  // all done
        if (last < 0)
            break;  // child died before starting anything: give up protecting
        status[std::size_t(last / 16)].flight = hung ? Flight::hung : Flight::crashed;
        status[std::size_t(last / 16)].stage = int(last % 16);
        start = std::size_t(last / 16) + 1;
    }
    return status;
}

std::vector<Flight> preflight_batch(std::size_t n, std::function<void(std::size_t)> const& body, int timeout_s = 120)
{
    auto st = preflight_stages(n, [&](std::size_t i, MarkFn const&) { body(i); }, timeout_s);
    std::vector<Flight> r;
    for (auto const& x : st)
        r.push_back(x.flight);
    return r;
}

std::string write_input(OrangeInput const& inp)
{
    std::ostringstream os;
    os << inp;
    return os.str();
}
OrangeInput read_input(std::string const& text)
{
    std::istringstream is(text);
    OrangeInput inp;
    is >> inp;
    return inp;
}
// the body of app/orange-update.cc's run()
std::string update_path(std::string const& text)
{
    std::istringstream is(text);
    OrangeInput inp;
    nlohmann::json::parse(is).get_to(inp);
    return nlohmann::json(inp).dump(/* indent = */ 0);
}


// The whole round trip without judging anything (run inside the pre-flight child)
enum RtStage : int
{
    rt_build = 0,
    rt_write = 1,
    rt_read = 2,
    rt_rewrite = 3,
    rt_params = 4,
    rt_read_file = 5,
};
void roundtrip_dry(OrangeInput const& A, MarkFn const& mark, bool trackable)
{
    mark(rt_write);
    std::string text = write_input(A);
    mark(rt_read);
    OrangeInput B = read_input(text);
    mark(rt_rewrite);
    (void)write_input(B);
    (void)update_path(text);
    if (trackable)
    {
        mark(rt_params);
        OrangeInput ca = A, cb = B;
        OrangeParams pa(std::move(ca));
        OrangeParams pb(std::move(cb));
    }
}

void build_everything(gb::Model const& m)
{
    auto proto = m.global->make_proto();
    orangeinp::InputBuilder::Options opts;
    opts.tol = m.tol;
    orangeinp::InputBuilder build(std::move(opts));
    OrangeInput inp = build(*proto);
    OrangeParams params(std::move(inp));
}

// Stream of generated models (index -> model) with batched pre-flight
class ModelStream
{
  public:
    // roundtrip: C19 mode (models may hold involutes; the child also writes/reads the input)
    ModelStream(std::uint64_t seed, bool roundtrip) : seed_(seed), inv5_(roundtrip), roundtrip_(roundtrip) {}

    struct Item
    {
        gb::Model model;
        Flight flight = Flight::ok;
        int stage = 0;
        bool constructor_rejected = false;
        std::string reject_what;
        verif::Rng rng{1};  // generator stream continued (for probes)
    };

    Item generate(std::uint64_t idx) const
    {
        Item it;
        it.rng = verif::Rng(verif::mix_seed(seed_, idx));
        try
        {
            it.model = make_model(it.rng, idx % 3 == 0, inv5_ && idx % 5 == 4);
        }
        catch (RuntimeError const& e)
        {
            it.constructor_rejected = true;
            it.reject_what = e.details().what;
        }
        return it;
    }

    // model for idx with its pre-flight status (batches of 32 consecutive indices)
    Item get(std::uint64_t idx)
    {
        constexpr std::uint64_t batch = 32;
        if (idx < batch_start_ || idx >= batch_start_ + flights_.size())
        {
            batch_start_ = idx;
            flights_ = preflight_stages(batch, [&](std::size_t i, MarkFn const& mark) {
                Item it = this->generate(batch_start_ + i);
                if (it.constructor_rejected)
                    return;
                if (!roundtrip_)
                {
                    build_everything(it.model);
                    return;
                }
                BuildResult br = build_input(it.model, "C19");
                if (br.input)
                    roundtrip_dry(*br.input, mark, true);
            });
        }
        Item it = generate(idx);
        it.flight = flights_[idx - batch_start_].flight;
        it.stage = flights_[idx - batch_start_].stage;
        return it;
    }

  private:
    std::uint64_t seed_;
    bool inv5_;
    bool roundtrip_;
    std::uint64_t batch_start_ = ~0ull;
    std::vector<FlightInfo> flights_;
};

// A minimal model that holds one primitive (with its accumulated transform into the
// unit's frame) inside a large spherical global unit with a background fill; used to
// attribute a crash or a wrong location to a primitive on its own.
// True if the rotation part is neither the identity nor a signed axis permutation
bool is_general_rotation(gb::Xf const& x)
{
    for (int i = 0; i < 3; ++i)
        for (int j = 0; j < 3; ++j)
        {
            double a = std::fabs(x.R[i][j]);
            if (a > 1e-14 && std::fabs(a - 1) > 1e-14)
                return true;
        }
    return false;
}

// Site name of a primitive that is located wrongly ON ITS OWN: its kind, unless its
// parameters fall into a documented input class of a known defect that is independent of
// the kind.  (Naming only; the verdict was already made against the analytic oracle.)
//  * rotated-coaxial-quadrics: a body of revolution with two coaxial curved surfaces under a
//    general rotation becomes two GeneralQuadrics that differ only in the constant term
//    (t.t - r^2); SoftSurfaceEqual compares that term with the LENGTH tolerance
//    |r1^2 - r2^2| < max(abs, rel*|c|), so radii many tolerances apart are merged.
std::string class_site(gb::PrimRef const& pr, gb::Model const& m)
{
    gb::Prim const& p = *pr.prim;
    //  * ellipsoid-small-radii: the quadric of an ellipsoid has coefficients ~ r^4; the
    //    simplifier snaps coefficient differences and rotation cross terms (size up to
    //    D = (rmax^2 - rmin^2) rmax^2) to zero when they are below the LENGTH tolerance, which
    //    moves the surface by ~ tol / (4 r^3) >> tol.  Besides absolutely small semi-axes
    //    (the generator's class, r < 0.1) this hits nearly spherical ellipsoids whose D is
    //    within ~an order of magnitude of the tolerance.
    if (auto const* ell = dynamic_cast<gb::PEllipsoid const*>(&p))
    {
        double rmin = std::min({ell->r[0], ell->r[1], ell->r[2]});
        double rmax = std::max({ell->r[0], ell->r[1], ell->r[2]});
        double D = (rmax * rmax - rmin * rmin) * rmax * rmax;
        if (is_general_rotation(pr.to_frame) && D < 20 * m.tol.abs)
            return "ellipsoid-small-radii";
    }
    if (std::string(p.family()) == "revolution" && is_general_rotation(pr.to_frame))
    {
        double rmax = 0;
        for (double r : p.coaxial_radii())
            rmax = std::max(rmax, r);
        double c = gb::dot(pr.to_frame.t, pr.to_frame.t) + rmax * rmax;
        double bound = std::max(m.tol.abs, m.tol.rel * c);
        if (p.coaxial_r2_gap() < 2 * bound)
            return "rotated-coaxial-quadrics";
    }
    return p.kind;
}

// probe/half: if given, the material is (box of half-width `half` around `probe`) minus the
// primitive instead of the primitive itself
gb::Model isolate_primitive(gb::PrimRef const& pr, gb::Model const& orig, bool in_union = false,
                            Vec3 const* probe = nullptr, double half = 0)
{
    gb::Model m;
    m.tol = orig.tol;
    m.tol_name = orig.tol_name;
    auto u = std::make_shared<gb::UnitModel>();
    u->label = "isolated";
    u->R = 4 * orig.global->R;
    auto b = std::make_shared<gb::PSphere>("bound", u->R);
    u->boundary = b;
    u->explicit_boundary = false;
    u->has_background = true;
    u->bg_label = Label{"isolated", "bg"};
    gb::Material mat;
    // non-owning alias: the primitive lives in the original model
    std::shared_ptr<gb::Node const> prim(std::shared_ptr<gb::Node const>{}, pr.prim);
    gb::Xf x = pr.to_frame;
    bool identity = true;
    for (int i = 0; i < 3; ++i)
    {
        identity = identity && x.t[i] == 0;
        for (int j = 0; j < 3; ++j)
            identity = identity && x.R[i][j] == (i == j ? 1.0 : 0.0);
    }
    if (identity)
        mat.solid = prim;
    else
    {
        if (x.kind == gb::XfKind::none)
            x.kind = gb::XfKind::rotgen;
        mat.solid = std::make_shared<gb::NTransformed>(prim, x);
    }
    if (probe)
    {
        auto box = std::make_shared<gb::PBox>("probebox", Vec3{{half, half, half}});
        gb::Xf bx;
        bx.kind = gb::XfKind::translation;
        bx.t = *probe;
        auto j = std::make_shared<gb::NJoin>("iso_sub", gb::NJoin::Op::sub);
        j->kids = {std::make_shared<gb::NTransformed>(box, bx), mat.solid};
        mat.solid = j;
    }
    if (in_union)
    {
        // union with a small far-away sphere: exposes a bounding box of the primitive
        // that is too small or null (a null box alone is treated as "unknown")
        auto far = std::make_shared<gb::PSphere>("far", 0.1 * orig.global->R);
        gb::Xf fx;
        fx.kind = gb::XfKind::translation;
        fx.t = {{3 * orig.global->R, 0, 0}};
        auto j = std::make_shared<gb::NJoin>("iso_union", gb::NJoin::Op::any);
        j->kids = {mat.solid, std::make_shared<gb::NTransformed>(far, fx)};
        mat.solid = j;
    }
    mat.object = mat.solid;
    mat.label = Label{"m0", "isolated"};
    u->materials.push_back(mat);
    m.global = u;
    m.enumerate();
    // same tolerance scale as the original model
    m.tol_eff = orig.tol_eff;
    return m;
}

std::vector<gb::PrimRef> distinct_prims(gb::Model const& m)
{
    std::vector<gb::PrimRef> out;
    std::set<gb::Prim const*> seen;
    for (auto const& inst : m.instances)
        for (auto const& pr : inst.unit->prims)
            if (seen.insert(pr.prim).second)
                out.push_back(pr);
    return out;
}

std::string join_kinds(std::set<std::string> const& kinds)
{
    std::string s;
    for (auto const& k : kinds)
        s += (s.empty() ? "" : "+") + k;
    return s;
}

// Key site for a construction crash: the primitive kind(s) that crash on their own,
// else "composite"
std::string attribute_crash(gb::Model const& m)
{
    auto prims = distinct_prims(m);
    auto st = preflight_batch(prims.size(), [&](std::size_t i) { build_everything(isolate_primitive(prims[i], m)); });
    std::set<std::string> kinds;
    for (std::size_t i = 0; i < prims.size(); ++i)
        if (st[i] != Flight::ok)
            kinds.insert(prims[i].prim->kind);
    return kinds.empty() ? std::string("composite") : join_kinds(kinds);
}

//---------------------------------------------------------------------------//
// Run-time point location through the real track view
struct Observed
{
    bool failed = false;
    bool outside = false;
    Label label;
    int level = -1;
    std::string error;  // exception text
};

class Locator
{
  public:
    explicit Locator(std::shared_ptr<OrangeParams const> p)
        : params_(std::move(p)), state_(params_->host_ref(), 1)
    {
    }
    Observed operator()(Vec3 const& p)
    {
        Observed o;
        try
        {
            OrangeTrackView geo(params_->host_ref(), state_.ref(), TrackSlotId{0});
            geo = GeoTrackInitializer{Real3{p[0], p[1], p[2]}, Real3{0, 0, 1}};
            o.failed = geo.failed();
            o.outside = geo.is_outside();
            if (!o.failed)
            {
                VolumeId v = geo.volume_id();
                if (v)
                    o.label = params_->volumes().at(v);
                o.level = int(geo.level().get());
            }
        }
        catch (DebugError const& e)
        {
            o.error = std::string("debug-assert: ") + verif::describe(e);
            o.failed = true;
            bounds_ = verif::is_bounds_assertion(e);
            if (bounds_)
                bounds_key_ = verif::bounds_key("C09", e);
        }
        catch (RuntimeError const& e)
        {
            o.error = std::string("runtime-error: ") + e.details().what;
            o.failed = true;
        }
        return o;
    }
    OrangeParams const& params() const { return *params_; }
    bool last_bounds() const { return bounds_; }
    std::string const& bounds_key() const { return bounds_key_; }

  private:
    std::shared_ptr<OrangeParams const> params_;
    HostStateStore state_;
    bool bounds_ = false;
    std::string bounds_key_;
};

//---------------------------------------------------------------------------//
// Probe point generation
struct Probe
{
    Vec3 p;
    char const* kind;
};

void make_probes(gb::Model const& m, verif::Rng& rng, std::size_t n, std::vector<Probe>& out)
{
    out.clear();
    double R = m.global->R;
    auto map_up = [](gb::Instance const& inst, gb::PrimRef const& pr, Vec3 const& local) {
        return inst.to_global.up(pr.to_frame.up(local));
    };
    auto pick_prim = [&](gb::Instance const*& inst) -> gb::PrimRef const* {
        inst = &m.instances[rng.integer(0, std::int64_t(m.instances.size()) - 1)];
        if (inst->unit->prims.empty())
            return nullptr;
        return &inst->unit->prims[rng.integer(0, std::int64_t(inst->unit->prims.size()) - 1)];
    };
    std::size_t guard = 0;
    while (out.size() < n && guard++ < 20 * n)
    {
        double u = rng.uniform();
        if (u < 0.35)
        {
            // uniform in a cube around the global boundary
            double h = (rng.coin(0.8) ? 0.62 : 1.05) * R;
            out.push_back({{{rng.uniform(-h, h), rng.uniform(-h, h), rng.uniform(-h, h)}}, "uniform"});
        }
        else if (u < 0.45)
        {
            // uniform inside one placed daughter universe (deep levels are small)
            auto const& inst = m.instances[rng.integer(0, std::int64_t(m.instances.size()) - 1)];
            double h = 0.6 * inst.unit->R;
            out.push_back({inst.to_global.up({{rng.uniform(-h, h), rng.uniform(-h, h), rng.uniform(-h, h)}}), "unit"});
        }
        else if (u < 0.9)
        {
            // stratified near a face of a primitive: bisect a chord crossing its surface,
            // then step off by 20 tol ... 1e-3 extent
            gb::Instance const* inst;
            gb::PrimRef const* pr = pick_prim(inst);
            if (!pr)
                continue;
            double s = 1.3 * pr->prim->rad;
            Vec3 a, b;
            bool found = false;
            for (int t = 0; t < 12 && !found; ++t)
            {
                a = {{rng.uniform(-s, s), rng.uniform(-s, s), rng.uniform(-s, s)}};
                b = {{rng.uniform(-s, s), rng.uniform(-s, s), rng.uniform(-s, s)}};
                found = pr->prim->eval(a).in != pr->prim->eval(b).in;
            }
            if (!found)
                continue;
            bool ina = pr->prim->eval(a).in;
            for (int it = 0; it < 60; ++it)
            {
                Vec3 mid{{0.5 * (a[0] + b[0]), 0.5 * (a[1] + b[1]), 0.5 * (a[2] + b[2])}};
                if (pr->prim->eval(mid).in == ina)
                    a = mid;
                else
                    b = mid;
            }
            // step off the surface point in a random direction
            double dir[3];
            rng.unit3(dir);
            double lo = 20 * m.tol_eff, hi = std::max(2 * lo, 1e-3 * R);
            double delta = lo * std::pow(hi / lo, rng.uniform());
            if (rng.coin(0.15))
                delta = rng.uniform(0.01, 0.1) * pr->prim->rad;
            Vec3 q{{a[0] + delta * dir[0], a[1] + delta * dir[1], a[2] + delta * dir[2]}};
            out.push_back({map_up(*inst, *pr, q), "nearface"});
        }
        else
        {
            // symmetry axes / centre of a primitive
            gb::Instance const* inst;
            gb::PrimRef const* pr = pick_prim(inst);
            if (!pr)
                continue;
            double s = 1.2 * pr->prim->rad;
            Vec3 q{{0, 0, 0}};
            int ax = int(rng.integer(0, 3));
            if (ax < 3)
                q[ax] = rng.uniform(-s, s);
            if (rng.coin(0.3))
            {
                // in a symmetry plane
                int ax2 = int(rng.integer(0, 2));
                q[ax2] = rng.uniform(-s, s);
            }
            out.push_back({map_up(*inst, *pr, q), "axis"});
        }
    }
}

std::string ctx_string(unsigned mask)
{
    std::string s;
    if (mask & gb::ctx_plain)
        s += 'p';
    if (mask & gb::ctx_neg)
        s += 'n';
    if (mask & gb::ctx_any)
        s += 'u';
    if (mask & gb::ctx_all)
        s += 'i';
    return s;
}

// Which unit (by label) owns each expected volume label
void collect_owners(gb::UnitModel const& u, std::map<std::string, std::string>& owner)
{
    owner[lab_str(Label{"[EXTERIOR]", u.label})] = u.label;
    for (auto const& m : u.materials)
        owner[lab_str(m.label)] = u.label;
    if (u.has_background)
        owner[lab_str(u.bg_label)] = u.label;
    for (auto const& d : u.daughters)
        collect_owners(*d.unit, owner);
}

//---------------------------------------------------------------------------//
// C09
//---------------------------------------------------------------------------//
struct ReplaySet
{
    bool active = false;
    std::set<std::pair<std::uint64_t, std::uint64_t>> cases;  // (seed, index)
};

ReplaySet load_replay(std::string const& file)
{
    ReplaySet r;
    if (file.empty())
        return r;
    r.active = true;
    std::ifstream f(file);
    json j = json::parse(f, nullptr, false);
    if (j.is_discarded())
        return r;
    std::function<void(json const&)> walk = [&](json const& n) {
        if (n.is_object())
        {
            if (n.contains("seed") && n.contains("index") && n["seed"].is_number() && n["index"].is_number())
                r.cases.insert({n["seed"].get<std::uint64_t>(), n["index"].get<std::uint64_t>()});
            for (auto const& kv : n.items())
                walk(kv.value());
        }
        else if (n.is_array())
            for (auto const& e : n)
                walk(e);
    };
    walk(j);
    return r;
}

void surface_stage_observations(OrangeInput const& inp, gb::Model const& m, verif::Report& rep)
{
    std::size_t nsurf = 0;
    for (auto const& u : inp.universes)
    {
        auto const& ui = std::get<UnitInput>(u);
        nsurf += ui.surfaces.size();
        for (auto const& s : ui.surfaces)
            rep.observe(std::string("surface-type:") + gb::surface_type_name(s));
        for (auto const& v : ui.volumes)
        {
            if (v.flags & VolumeRecord::internal_surfaces)
                rep.observe("volume:internal-surfaces");
            if (!v.bbox)
                rep.observe("volume:null-bbox");
            else if (!is_finite(v.bbox))
                rep.observe("volume:infinite-bbox");
            else
                rep.observe("volume:finite-bbox");
        }
    }
    std::size_t nprim = 0;
    std::set<gb::Prim const*> seen;
    for (auto const& inst : m.instances)
        for (auto const& pr : inst.unit->prims)
            if (seen.insert(pr.prim).second)
                ++nprim;
    rep.observe("models:surfaces-emitted", nsurf);
    rep.observe("models:primitives", nprim);
}

struct Pending
{
    std::size_t pi;
    gb::Located exp;
    Observed obs;
    std::string symptom;  // locate | init-failed | level | wrong-universe
    std::string detail;
};

// Attribute wrong locations to primitives: each primitive of the unit that owns the
// expected volume is rebuilt on its own (same parameters, same accumulated transform) and
// probed at the same local points.  Primitives that are located wrongly on their own are
// the site of the violation; if none is, the defect needs the composition
// ("composite/<kind of the nearest primitive>").
std::vector<std::string> attribute_sites(gb::Model const& m, std::vector<Pending> const& pend,
                                         std::vector<json>* attributed = nullptr)
{
    // per probe: site -> description of the primitive and context that reproduced it
    std::vector<std::map<std::string, json>> descs(pend.size());
    auto describe_culprit = [](gb::PrimRef const& pr, char const* context) {
        json j;
        j["context"] = context;
        j["primitive"] = pr.prim->describe();
        j["primitive_to_unit_frame"] = pr.to_frame.to_json();
        return j;
    };
    // per probe: culprit kind -> its own distance to the probe (nearest one names the site)
    std::vector<std::map<std::string, double>> culprits(pend.size());
    std::map<gb::UnitModel const*, std::vector<std::size_t>> by_unit;
    for (std::size_t i = 0; i < pend.size(); ++i)
        if (pend[i].exp.unit)
            by_unit[pend[i].exp.unit].push_back(i);
    for (auto const& kv : by_unit)
    {
        gb::UnitModel const* u = kv.first;
        // distinct primitives of this unit
        std::vector<gb::PrimRef> prims;
        std::set<gb::Prim const*> seen;
        for (auto const& pr : u->prims)
            if (seen.insert(pr.prim).second)
                prims.push_back(pr);
        std::vector<gb::PrimRef> const base_prims = prims;
        std::vector<gb::Model> iso;
        for (auto const& pr : prims)
            iso.push_back(isolate_primitive(pr, m, false));
        for (auto const& pr : prims)
            iso.push_back(isolate_primitive(pr, m, true));
        {
            auto twice = prims;
            prims.insert(prims.end(), twice.begin(), twice.end());
        }
        auto st = preflight_batch(iso.size(), [&](std::size_t i) { build_everything(iso[i]); });
        for (std::size_t k = 0; k < iso.size(); ++k)
        {
            if (st[k] != Flight::ok)
                continue;
            BuildResult br = build_input(iso[k], "C09");
            if (!br.input)
                continue;
            std::shared_ptr<OrangeParams const> params;
            try
            {
                params = std::make_shared<OrangeParams>(std::move(*br.input));
            }
            catch (std::exception const&)
            {
                continue;
            }
            Locator loc(params);
            for (std::size_t i : kv.second)
            {
                Vec3 const& q = pend[i].exp.local;
                if (gb::norm(q) > 0.9 * iso[k].global->R)
                    continue;
                gb::Located e = gb::locate(iso[k], q, 10);
                if (e.status != gb::Located::ok)
                    continue;
                Observed o = loc(q);
                bool same = !o.failed && o.label.name == e.label.name && o.label.ext == e.label.ext;
                if (!same)
                {
                    double own = prims[k].prim->eval(prims[k].to_frame.down(q)).prox;
                    std::string site = class_site(prims[k], m);
                    auto it = culprits[i].find(site);
                    if (it == culprits[i].end() || own < it->second)
                    {
                        culprits[i][site] = own;
                        descs[i][site] = describe_culprit(prims[k], k < base_prims.size() ? "alone" : "in a union with a far sphere");
                    }
                }
            }
        }

        // Third context, for probes not explained so far: a small box around the probe
        // minus the primitive (every primitive that is used negated somewhere in this unit
        // and does not contain the probe).  This is the smallest input on which a wrong
        // *interior* bounding box of the subtracted region shows (the difference is
        // declared empty and dropped from the enclosing union).
        std::set<std::size_t> culprit_prims;
        // pass 0: the first 12 unexplained probes against every negated primitive;
        // pass 1: the remaining ones against the primitives found guilty in pass 0 (all
        // negated primitives if none was), at most 200 probes
        for (int pass = 0; pass < 2; ++pass)
        {
            std::vector<gb::Model> sub_models;
            std::vector<std::pair<std::size_t, std::size_t>> sub_index;  // (probe, primitive)
            std::vector<Vec3> sub_point;  // test point (the probe, or displaced from it)
            std::size_t n_sub_probes = 0;
            for (std::size_t i : kv.second)
            {
                if (!culprits[i].empty() || n_sub_probes >= (pass == 0 ? 12u : 200u))
                    continue;
                ++n_sub_probes;
                Vec3 const& q = pend[i].exp.local;
                for (std::size_t k = 0; k < base_prims.size(); ++k)
                {
                    auto const& pr = base_prims[k];
                    if (!(pr.prim->ctx_mask & gb::ctx_neg))
                        continue;
                    if (pass == 1 && !culprit_prims.empty() && !culprit_prims.count(k))
                        continue;
                    gb::Ev e = pr.prim->eval(pr.to_frame.down(q));
                    if (e.in)
                        continue;
                    // box corners stay clear of the primitive (h sqrt(3) < prox); the test
                    // point stays >= 15 tol from the box faces (judgeable).  A probe too
                    // close to the primitive for that is replaced by points displaced
                    // away from the primitive's surface (40, 160, 640 tol).
                    std::vector<Vec3> cand;
                    if (std::min(0.4 * e.prox, 0.05 * pr.prim->rad) > 15 * m.tol_eff)
                        cand.push_back(q);
                    else
                    {
                        Vec3 ql = pr.to_frame.down(q);
                        double eps = 0.1 * e.prox;
                        Vec3 g{{0, 0, 0}};
                        for (int ax = 0; ax < 3; ++ax)
                        {
                            Vec3 a = ql, b = ql;
                            a[ax] += eps;
                            b[ax] -= eps;
                            g[ax] = pr.prim->eval(a).prox - pr.prim->eval(b).prox;
                        }
                        double gn = gb::norm(g);
                        if (gn > 0)
                            for (double d : {40.0, 160.0, 640.0})
                            {
                                Vec3 c = ql;
                                for (int ax = 0; ax < 3; ++ax)
                                    c[ax] += d * m.tol_eff * g[ax] / gn;
                                gb::Ev ec = pr.prim->eval(c);
                                if (!ec.in && std::min(0.4 * ec.prox, 0.05 * pr.prim->rad) > 15 * m.tol_eff)
                                    cand.push_back(pr.to_frame.up(c));
                            }
                    }
                    for (Vec3 const& c : cand)
                    {
                        double h = std::min(0.4 * pr.prim->eval(pr.to_frame.down(c)).prox, 0.05 * pr.prim->rad);
                        sub_models.push_back(isolate_primitive(pr, m, true, &c, h));
                        sub_index.push_back({i, k});
                        sub_point.push_back(c);
                    }
                }
            }
            if (sub_models.empty())
                continue;
            auto sst = preflight_batch(sub_models.size(), [&](std::size_t j) { build_everything(sub_models[j]); });
            for (std::size_t j = 0; j < sub_models.size(); ++j)
            {
                if (sst[j] != Flight::ok)
                    continue;
                BuildResult br = build_input(sub_models[j], "C09");
                if (!br.input)
                    continue;
                std::shared_ptr<OrangeParams const> params;
                try
                {
                    params = std::make_shared<OrangeParams>(std::move(*br.input));
                }
                catch (std::exception const&)
                {
                    continue;
                }
                Locator loc(params);
                std::size_t i = sub_index[j].first;
                auto const& pr = base_prims[sub_index[j].second];
                Vec3 const& q = sub_point[j];
                gb::Located e = gb::locate(sub_models[j], q, 10);
                if (e.status != gb::Located::ok)
                    continue;
                Observed o = loc(q);
                bool same = !o.failed && o.label.name == e.label.name && o.label.ext == e.label.ext;
                if (!same)
                {
                    culprit_prims.insert(sub_index[j].second);
                    // input classes of the known interior-bounding-box defects; anything
                    // else is named by the kind of the subtracted primitive
                    std::string fam = pr.prim->family();
                    std::string site = std::string("subtracted-")
                                       + (fam == "sphere"                      ? std::string("sphere")
                                          : is_general_rotation(pr.to_frame) ? std::string("rotated-region")
                                          : fam == "prism"                    ? std::string("prism")
                                                                              : pr.prim->kind);
                    double own = pr.prim->eval(pr.to_frame.down(q)).prox;
                    auto it = culprits[i].find(site);
                    if (it == culprits[i].end() || own < it->second)
                    {
                        culprits[i][site] = own;
                        descs[i][site] = describe_culprit(pr, "subtracted from a small box around the probe (in a union with a far sphere)");
                    }
                }
            }
        }
    }
    // A region dropped from a volume (its bounding box or logic is wrong as a whole) makes
    // every probe of that volume fail; probes that could not be re-tested themselves (too
    // close to the culprit for a probe box) inherit the site found for the same expected
    // volume and symptom in this model.
    {
        std::map<std::string, std::string> by_volume;
        for (std::size_t i = 0; i < pend.size(); ++i)
            if (!culprits[i].empty())
            {
                auto best = culprits[i].begin();
                for (auto it = culprits[i].begin(); it != culprits[i].end(); ++it)
                    if (it->second < best->second)
                        best = it;
                if (best->first.rfind("subtracted-", 0) == 0)
                    by_volume.emplace(lab_str(pend[i].exp.label) + "|" + pend[i].symptom, best->first);
            }
        for (std::size_t i = 0; i < pend.size(); ++i)
            if (culprits[i].empty())
            {
                auto it = by_volume.find(lab_str(pend[i].exp.label) + "|" + pend[i].symptom);
                if (it != by_volume.end())
                {
                    culprits[i][it->second] = 0;
                    descs[i][it->second] = json{{"context", "inherited from another probe of the same expected volume"}};
                }
            }
    }
    std::vector<std::string> sites(pend.size());
    if (attributed)
        attributed->assign(pend.size(), json());
    for (std::size_t i = 0; i < pend.size(); ++i)
    {
        if (!culprits[i].empty())
        {
            auto best = culprits[i].begin();
            for (auto it = culprits[i].begin(); it != culprits[i].end(); ++it)
                if (it->second < best->second)
                    best = it;
            sites[i] = best->first;
            if (attributed)
                (*attributed)[i] = descs[i][best->first];
        }
        else
        {
            // needs the composition: name the transform kind and boolean contexts of the
            // nearest primitive (coarse on purpose: one defect, few keys)
            gb::Prim const* np = pend[i].exp.nearest;
            sites[i] = std::string("composite/") + gb::to_str(np ? np->xf_seen : gb::XfKind::none) + "/"
                       + ctx_string(np ? np->ctx_mask : 0) + "/d" + std::to_string(pend[i].exp.depth);
        }
    }
    return sites;
}

int run_c09(verif::Args const& args)
{
    verif::Report rep("C09", "geobuild", args);
    rep.set_rule(
        "A model is a random nested-unit geometry written with the orangeinp API (1-3 "
        "levels of UnitProto, 0-3 daughters per unit with translation / quarter-turn / "
        "general-rotation / reflection placements, 1-4 materials per unit, each a random "
        "object tree of depth <= 4 over box, sphere, cylinder, cone (incl. zero-radius end), "
        "ellipsoid, prism, parallelepiped, GenPrism (trd, trap, planar, twisted, nearly "
        "planar, apex), infinite wedge, hollow/sliced cone/cylinder/prism/sphere solids, "
        "polycones, polyprisms joined by any/all/rdv/subtraction under transforms; face "
        "coordinates are snapped onto shared grid lines exactly or 0.1-10 tol apart; "
        "implicit and explicit boundaries, background fills, 5 construction tolerances); one "
        "third of the models hold a single primitive. A case is one probe point (uniform, "
        "stratified 20 tol..1e-3 from a primitive's face, on symmetry axes) judged against "
        "the analytic membership of the user's tree; points nearer than 10 tol to any "
        "primitive surface are untestable. A cell is (kind of the primitive nearest to the "
        "probe x boolean contexts it is used in x worst transform kind above it x unit "
        "depth of the expected volume x probe class); every judged probe is non-trivial "
        "(the runtime answer depends on the constructed surfaces, logic and bounding boxes). "
        "Constructions run first in a forked child: a crash or hang is a violation.");
    rep.assume("the analytic membership functions in ref_solids.hh (written from the doc comments of "
               "IntersectRegion.hh, Solid.hh, PolySolid.hh, UnitProto.hh and the Geant4 G4Para/G4Trap "
               "definitions these refer to) are the meaning of the user's solids");
    rep.assume("first-order distance |f|/|grad f| is an adequate estimate of the distance to a primitive "
               "surface at the 10-tolerance scale (features are >= 1e4 tol)");

    ReplaySet replay = load_replay(args.replay);
    // per process; the thorough tier runs 8 shards (32 000 models in total)
    std::uint64_t n_models = args.budget(300, 4000);
    std::size_t n_points = args.thorough() ? 6000 : 2000;
    // DESIGN C09: untestable if nearer than 10 tol (tol = max(abs, rel * extent), the
    // documented meaning of Tolerance<>: SoftEqual compares |a-b| < max(abs, rel*|a|))
    double const near_factor = 10;

    std::vector<Probe> probes;
    std::uint64_t total_models_built = 0;
    Stopwatch sw;
    // work list: (seed, index); a replay file names the cases (with their own seeds)
    std::vector<std::pair<std::uint64_t, std::uint64_t>> work;
    if (replay.active)
        work.assign(replay.cases.begin(), replay.cases.end());
    else
        for (std::uint64_t idx = 0; idx < n_models; ++idx)
            work.push_back({args.seed, idx});
    std::unique_ptr<ModelStream> stream;
    std::uint64_t stream_seed = 0;
    for (auto const& wk : work)
    {
        std::uint64_t const case_seed = wk.first;
        std::uint64_t const idx = wk.second;
        if (args.has("only") && std::to_string(idx) != args.get("only"))
            continue;
        sw.lap("other");
        if (!stream || stream_seed != case_seed)
        {
            stream = std::make_unique<ModelStream>(case_seed, false);
            stream_seed = case_seed;
        }
        ModelStream::Item item = stream->get(idx);
        sw.lap("generate+preflight");
        if (item.constructor_rejected)
        {
            rep.inconclusive("rejected input: object constructor");
            rep.observe("rejected:" + item.reject_what.substr(0, 50));
            continue;
        }
        gb::Model const& m = item.model;
        verif::Rng& rng = item.rng;
        json jcase;
        jcase["seed"] = case_seed;
        jcase["index"] = idx;
        jcase["tolerance"] = m.tol_name;
        if (item.flight != Flight::ok)
        {
            std::string site = attribute_crash(m);
            sw.lap("crash-attribution");
            jcase["model"] = m.global->describe();
            jcase["tol"] = {{"rel", m.tol.rel}, {"abs", m.tol.abs}};
            rep.violation(std::string(item.flight == Flight::hung ? "C09/construction-hang/" : "C09/construction-crash/") + site,
                          item.flight == Flight::hung
                              ? "constructing the geometry did not terminate within 120 s"
                              : "constructing the geometry from valid objects kills the process",
                          jcase);
            continue;
        }
        BuildResult br = build_input(m, "C09");
        if (br.bounds_violation)
        {
            jcase["model"] = m.global->describe();
            rep.violation(br.bounds_key, br.why, jcase);
            continue;
        }
        if (!br.input)
        {
            rep.inconclusive(br.why);
            if (br.why.rfind("debug-assert", 0) == 0)
                rep.observe("assert:" + br.why.substr(14));
            continue;
        }
        surface_stage_observations(*br.input, m, rep);
        if (std::getenv("GEOBUILD_DEBUG"))
            std::cerr << "MODEL " << idx << ": " << m.global->describe().dump() << "\nINPUT: " << *br.input << "\n";
        std::shared_ptr<OrangeParams const> params;
        try
        {
            OrangeInput copy = *br.input;
            params = std::make_shared<OrangeParams>(std::move(copy));
        }
        catch (RuntimeError const& e)
        {
            rep.inconclusive("rejected input: OrangeParams: " + std::string(e.details().what).substr(0, 50));
            continue;
        }
        catch (DebugError const& e)
        {
            if (verif::is_bounds_assertion(e))
            {
                jcase["model"] = m.global->describe();
                rep.violation(verif::bounds_key("C09", e), e.what(), jcase);
            }
            else
            {
                rep.inconclusive("debug-assert: " + verif::describe(e));
                rep.observe("assert:" + verif::describe(e));
            }
            continue;
        }
        sw.lap("build");
        ++total_models_built;
        rep.observe("models:built");
        rep.observe(std::string("models:tol=") + m.tol_name);
        rep.observe("models:depth=" + std::to_string(m.max_depth));

        std::map<std::string, std::string> owner;
        collect_owners(*m.global, owner);

        Locator locate_rt(params);
        make_probes(m, rng, n_points, probes);
        sw.lap("make-probes");
        bool sampled = false;
        std::vector<Pending> pending;
        for (std::size_t pi = 0; pi < probes.size(); ++pi)
        {
            auto const& pb = probes[pi];
            gb::Located exp = gb::locate(m, pb.p, near_factor);
            if (exp.status == gb::Located::near_surface)
            {
                rep.inconclusive("untestable: near surface");
                continue;
            }
            if (exp.status == gb::Located::ambiguous)
            {
                rep.inconclusive("invalid input at probe: overlapping regions");
                continue;
            }
            if (exp.status == gb::Located::hole)
            {
                rep.inconclusive("invalid input at probe: no region");
                continue;
            }
            Observed obs = locate_rt(pb.p);
            if (!obs.error.empty())
            {
                if (locate_rt.last_bounds())
                {
                    json w = jcase;
                    w["point"] = {pb.p[0], pb.p[1], pb.p[2]};
                    w["model"] = m.global->describe();
                    rep.violation(locate_rt.bounds_key(), obs.error, w);
                }
                else
                {
                    rep.inconclusive(obs.error.substr(0, 80));
                    rep.observe("assert:" + obs.error.substr(0, 80));
                }
                continue;
            }
            rep.observe_max("min_margin_judged/tol", -exp.prox / m.tol_eff);
            std::string margin = std::to_string(exp.prox / m.tol_eff) + " tol from the nearest surface";
            if (obs.failed)
            {
                pending.push_back({pi, exp, obs, "init-failed",
                                   "track view could not be initialised at a point " + margin + "; expected volume "
                                       + lab_str(exp.label)});
                continue;
            }
            bool same = obs.label.name == exp.label.name && obs.label.ext == exp.label.ext;
            if (!same)
            {
                auto io = owner.find(lab_str(obs.label));
                auto ie = owner.find(lab_str(exp.label));
                bool other_univ = io != owner.end() && ie != owner.end() && io->second != ie->second;
                pending.push_back({pi, exp, obs, other_univ ? "wrong-universe" : "locate",
                                   "runtime volume '" + lab_str(obs.label)
                                       + "' but the point satisfies the definition of '" + lab_str(exp.label) + "' ("
                                       + margin + ")"});
                continue;
            }
            if (obs.level != exp.depth || obs.outside != exp.exterior)
            {
                pending.push_back({pi, exp, obs, "level", "volume label agrees but universe level / outside flag differs"});
                continue;
            }
            std::string cell = (exp.nearest ? exp.nearest->kind : std::string("none")) + "|"
                               + ctx_string(exp.nearest ? exp.nearest->ctx_mask : 0) + "|"
                               + gb::to_str(exp.nearest ? exp.nearest->xf_seen : gb::XfKind::none) + "|d"
                               + std::to_string(exp.depth) + "|" + pb.kind;
            rep.held(cell);
            if (!sampled && rep.want_sample(6) && exp.depth > 0)
            {
                sampled = true;
                json s = jcase;
                s["point"] = {pb.p[0], pb.p[1], pb.p[2]};
                s["expected_label"] = lab_str(exp.label);
                s["observed_label"] = lab_str(obs.label);
                s["depth"] = exp.depth;
                s["distance_to_nearest_surface/tol"] = exp.prox / m.tol_eff;
                s["nearest_primitive"] = exp.nearest ? exp.nearest->describe() : json();
                s["universes"] = br.input->universes.size();
                rep.sample(s, 6);
            }
        }
        sw.lap("probe");
        if (!pending.empty())
        {
            std::vector<json> attributed;
            auto sites = attribute_sites(m, pending, &attributed);
            std::map<std::string, int> per_key;
            for (std::size_t i = 0; i < pending.size(); ++i)
            {
                auto const& pd = pending[i];
                auto const& pb = probes[pd.pi];
                std::string key = "C09/" + pd.symptom + "/" + sites[i];
                json w;
                if (per_key[key]++ < 2)
                {
                    w = jcase;
                    w["probe_index"] = pd.pi;
                    w["probe_kind"] = pb.kind;
                    w["point"] = {pb.p[0], pb.p[1], pb.p[2]};
                    w["point_hex"] = {verif::hexd(pb.p[0]), verif::hexd(pb.p[1]), verif::hexd(pb.p[2])};
                    w["point_in_unit_frame"] = {pd.exp.local[0], pd.exp.local[1], pd.exp.local[2]};
                    w["expected_label"] = lab_str(pd.exp.label);
                    w["expected_depth"] = pd.exp.depth;
                    w["observed_label"] = pd.obs.failed ? std::string("<failed>") : lab_str(pd.obs.label);
                    w["observed_level"] = pd.obs.level;
                    w["distance_to_nearest_surface"] = pd.exp.prox;
                    w["tol_eff"] = m.tol_eff;
                    w["tol"] = {{"rel", m.tol.rel}, {"abs", m.tol.abs}};
                    if (pd.exp.nearest)
                        w["nearest_primitive"] = pd.exp.nearest->describe();
                    w["attributed_to"] = attributed[i];
                    w["model"] = m.global->describe();
                }
                rep.violation(key, pd.detail, std::move(w));
            }
            sw.lap("violation-attribution");
        }
    }
    sw.lap("other");
    rep.note("seconds_by_phase", sw.acc);
    rep.note("models_built", total_models_built);
    rep.note("points_per_model", n_points);
    return rep.finish();
}

//---------------------------------------------------------------------------//
// C19
//---------------------------------------------------------------------------//
struct Trace
{
    std::vector<std::uint64_t> words;
    bool operator==(Trace const& o) const { return words == o.words; }
};

std::uint64_t hash_str(std::string const& s)
{
    std::uint64_t h = 1469598103934665603ull;
    for (unsigned char c : s)
        h = (h ^ c) * 1099511628211ull;
    return h;
}

// Volume sequence + distances of one ray through the real track view
Trace trace_ray(OrangeParams const& params, HostStateStore& state, Real3 const& pos, Real3 const& dir, json* text)
{
    Trace t;
    auto rec_vol = [&](OrangeTrackView& geo) {
        t.words.push_back(geo.failed() ? ~0ull : 0ull);
        VolumeId v = geo.volume_id();
        t.words.push_back(v ? v.get() : ~0ull);
        t.words.push_back(geo.level().get());
        if (text)
            text->push_back(v ? lab_str(params.volumes().at(v)) : std::string("<none>"));
    };
    try
    {
        OrangeTrackView geo(params.host_ref(), state.ref(), TrackSlotId{0});
        geo = GeoTrackInitializer{pos, dir};
        rec_vol(geo);
        for (int step = 0; step < 64 && !geo.failed(); ++step)
        {
            if (geo.is_outside() && step > 0)
                break;
            Propagation next = geo.find_next_step();
            t.words.push_back(verif::bits_of(next.distance));
            t.words.push_back(next.boundary ? 1 : 0);
            if (text)
                text->push_back(next.distance);
            if (!next.boundary)
                break;
            geo.move_to_boundary();
            geo.cross_boundary();
            rec_vol(geo);
        }
    }
    catch (DebugError const& e)
    {
        t.words.push_back(0xdeb06ull);
        t.words.push_back(hash_str(verif::describe(e)));
    }
    catch (RuntimeError const& e)
    {
        t.words.push_back(0xe7707ull);
        t.words.push_back(hash_str(e.details().what));
    }
    return t;
}

template<class Map>
bool same_label_map(Map const& a, Map const& b, std::string& detail)
{
    if (a.size() != b.size())
    {
        detail = "size " + std::to_string(a.size()) + " vs " + std::to_string(b.size());
        return false;
    }
    using IdT = std::decay_t<decltype(a.find_all("").front())>;
    for (std::size_t i = 0; i < a.size(); ++i)
    {
        Label const& la = a.at(IdT(i));
        Label const& lb = b.at(IdT(i));
        if (la.name != lb.name || la.ext != lb.ext)
        {
            detail = "id " + std::to_string(i) + ": '" + lab_str(la) + "' vs '" + lab_str(lb) + "'";
            return false;
        }
    }
    return true;
}

struct C19Source
{
    std::string src;  // gen | file | fuzz
    std::string name;  // file name or model description handle
    json origin;  // seed/index
    bool trackable = true;
};

void check_roundtrip(OrangeInput const& A, C19Source const& src, verif::Report& rep, verif::Rng& rng, int n_rays)
{
    gb::Signature sig = gb::signature(A);
    std::string cellsfx = "|src=" + src.src + "|" + sig.cell();
    rep.observe("inputs:" + src.src);
    for (int b = 0; b < 18; ++b)
        if (sig.surf_mask & (1u << b))
            rep.observe(std::string("has-surface:") + to_cstring(SurfaceType(b)));
    for (int b = 0; b < 3; ++b)
        if (sig.xf_mask & (1u << b))
            rep.observe(std::string("has-transform:") + (b == 0 ? "none" : b == 1 ? "translation" : "transformation"));
    if (sig.rect)
        rep.observe("has:rectarray");
    if (sig.label_ext)
        rep.observe("has:label-ext");
    if (sig.nondefault_tol)
        rep.observe("has:nondefault-tol");
    if (sig.obz)
        rep.observe("has:obz");
    if (sig.background)
        rep.observe("has:background");
    if (sig.inf_bbox)
        rep.observe("has:infinite-bbox");
    if (sig.null_bbox)
        rep.observe("has:null-bbox");

    auto wit = [&](std::string const& extra = {}) {
        json w = src.origin;
        w["source"] = src.src;
        w["name"] = src.name;
        if (!extra.empty())
            w["where"] = extra;
        return w;
    };

    std::string text1;
    try
    {
        text1 = write_input(A);
    }
    catch (RuntimeError const& e)
    {
        rep.inconclusive("rejected input: writer: " + std::string(e.details().what).substr(0, 50));
        return;
    }
    catch (DebugError const& e)
    {
        if (verif::is_bounds_assertion(e))
            rep.violation(verif::bounds_key("C19", e), e.what(), wit());
        else
        {
            rep.inconclusive("debug-assert: " + verif::describe(e));
            rep.observe("assert:" + verif::describe(e));
        }
        return;
    }
    catch (nlohmann::json::exception const& e)
    {
        rep.violation("C19/write-throws", e.what(), wit());
        return;
    }
    std::optional<OrangeInput> Bopt;
    try
    {
        Bopt = read_input(text1);
    }
    catch (std::exception const& e)
    {
        json w = wit();
        w["text_head"] = text1.substr(0, 400);
        std::string what = e.what();
        if (auto const* de = dynamic_cast<DebugError const*>(&e))
        {
            if (!verif::is_bounds_assertion(*de))
            {
                rep.inconclusive("debug-assert: " + verif::describe(*de));
                rep.observe("assert:" + verif::describe(*de));
                return;
            }
        }
        rep.violation("C19/reread-throws", "reading back the text just written failed: " + what.substr(0, 300), w);
        return;
    }
    OrangeInput const& B = *Bopt;

    // (1) deep field-by-field equality, one sub-case per field group
    gb::InputComparator cmp;
    cmp.compare(A, B);
    static char const* const groups[] = {"structure", "labels", "surfaces", "logic", "flags",
                                         "bboxes", "obz", "placements", "rectarray", "tolerances"};
    for (char const* g : groups)
    {
        bool relevant = true;
        std::string gs = g;
        if (gs == "obz")
            relevant = sig.obz;
        if (gs == "rectarray")
            relevant = sig.rect;
        if (gs == "placements")
            relevant = sig.xf_mask != 0;
        std::set<std::string> fields;
        bool any = false;
        for (auto const& d : cmp.diffs)
        {
            if (d.group != gs)
                continue;
            any = true;
            if (fields.insert(d.field).second)
            {
                json w = wit(d.where);
                w["difference"] = d.detail;
                rep.violation_in_case("C19/field/" + d.field, d.field + " differs after write+read: " + d.detail, w);
            }
        }
        if (any)
            rep.inconclusive("sub-check failed (violation recorded): " + gs);
        else if (relevant)
            rep.held("field:" + gs + cellsfx);
        else
            rep.held_trivial();
    }

    // (2) idempotence: write(B) == write(A) byte-wise
    try
    {
        std::string text2 = write_input(B);
        if (text2 != text1)
        {
            std::size_t pos = 0;
            while (pos < text1.size() && pos < text2.size() && text1[pos] == text2[pos])
                ++pos;
            json w = wit();
            w["first_difference_at"] = pos;
            w["first"] = text1.substr(pos > 60 ? pos - 60 : 0, 160);
            w["second"] = text2.substr(pos > 60 ? pos - 60 : 0, 160);
            rep.violation("C19/idempotence", "write(read(write(A))) != write(A)", w);
        }
        else
            rep.held("idempotence" + cellsfx);
    }
    catch (std::exception const& e)
    {
        rep.violation("C19/rewrite-throws", e.what(), wit());
    }

    // (3) orange-update path (json::parse -> get_to -> json(inp).dump(0)) reproduces the text
    try
    {
        std::string upd = update_path(text1);
        if (upd != text1)
            rep.violation("C19/update-path", "orange-update on a freshly written file changes it", wit());
        else
            rep.held("update-path" + cellsfx);
    }
    catch (std::exception const& e)
    {
        rep.violation("C19/update-path-throws", e.what(), wit());
    }

    if (!src.trackable)
        return;

    // (4) OrangeParams(A) vs OrangeParams(B)
    std::shared_ptr<OrangeParams> pa, pb;
    try
    {
        OrangeInput ca = A;
        pa = std::make_shared<OrangeParams>(std::move(ca));
    }
    catch (RuntimeError const& e)
    {
        rep.inconclusive("rejected input: OrangeParams(A): " + std::string(e.details().what).substr(0, 50));
        return;
    }
    catch (DebugError const& e)
    {
        rep.inconclusive("debug-assert: " + verif::describe(e));
        rep.observe("assert:" + verif::describe(e));
        return;
    }
    try
    {
        OrangeInput cb = B;
        pb = std::make_shared<OrangeParams>(std::move(cb));
    }
    catch (std::exception const& e)
    {
        if (auto const* de = dynamic_cast<DebugError const*>(&e))
        {
            if (!verif::is_bounds_assertion(*de))
            {
                // original accepted, round-tripped rejected by an assertion: still a difference
            }
        }
        rep.violation("C19/params/construct-B", std::string("OrangeParams accepts A but not B: ") + e.what(), wit());
        return;
    }
    {
        std::string d;
        bool ok = true;
        if (!same_label_map(pa->volumes(), pb->volumes(), d))
        {
            rep.violation("C19/params/volume-labels", d, wit());
            ok = false;
        }
        if (!same_label_map(pa->surfaces(), pb->surfaces(), d))
        {
            rep.violation("C19/params/surface-labels", d, wit());
            ok = false;
        }
        if (!same_label_map(pa->universes(), pb->universes(), d))
        {
            rep.violation("C19/params/universe-labels", d, wit());
            ok = false;
        }
        if (pa->max_depth() != pb->max_depth() || pa->supports_safety() != pb->supports_safety()
            || !gb::same_bbox(pa->bbox(), pb->bbox()))
        {
            rep.violation("C19/params/scalars", "max_depth / supports_safety / bbox differ", wit());
            ok = false;
        }
        if (ok)
            rep.held("params-labels" + cellsfx);
    }
    // navigation traces
    {
        HostStateStore sa(pa->host_ref(), 1), sb(pb->host_ref(), 1);
        BBox bb = pa->bbox();
        Real3 lo = bb.lower(), hi = bb.upper();
        for (int i = 0; i < 3; ++i)
        {
            if (!(std::isfinite(lo[i]) && std::isfinite(hi[i])))
            {
                lo[i] = -20;
                hi[i] = 20;
            }
        }
        std::uint64_t crossings = 0;
        bool ok = true;
        for (int r = 0; r < n_rays && ok; ++r)
        {
            Real3 pos, dir;
            for (int i = 0; i < 3; ++i)
                pos[i] = rng.uniform(lo[i], hi[i]);
            double d[3];
            rng.unit3(d);
            if (rng.coin(0.1))
            {
                // axis-aligned ray
                int ax = int(rng.integer(0, 2));
                double s = d[ax] < 0 ? -1 : 1;
                d[0] = d[1] = d[2] = 0;
                d[ax] = s;
            }
            dir = {d[0], d[1], d[2]};
            Trace ta = trace_ray(*pa, sa, pos, dir, nullptr);
            Trace tb = trace_ray(*pb, sb, pos, dir, nullptr);
            crossings += ta.words.size() / 5;
            if (!(ta == tb))
            {
                json w = wit();
                w["pos"] = {pos[0], pos[1], pos[2]};
                w["dir"] = {dir[0], dir[1], dir[2]};
                json xa = json::array(), xb = json::array();
                trace_ray(*pa, sa, pos, dir, &xa);
                trace_ray(*pb, sb, pos, dir, &xb);
                w["trace_original"] = xa;
                w["trace_roundtrip"] = xb;
                rep.violation("C19/navigation", "navigation trace differs between OrangeParams(A) and OrangeParams(B)", w);
                ok = false;
            }
        }
        rep.observe("rays:boundary-crossings", crossings);
        if (ok)
            rep.held("navigation" + cellsfx);
    }
}

std::vector<std::string> bundled_files()
{
    std::vector<std::string> files;
    for (std::string dir : {"/test/orange/data", "/test/geocel/data"})
    {
        std::error_code ec;
        for (auto const& e : std::filesystem::directory_iterator(repo_root() + dir, ec))
        {
            std::string p = e.path().string();
            if (p.size() > 9 && p.substr(p.size() - 9) == ".org.json")
                files.push_back(p);
        }
    }
    std::sort(files.begin(), files.end());
    return files;
}

// Which surface types make the reader die: each type present in the text is read on its
// own (minimal one-surface unit written by hand, independent of the library's writer)
std::string attribute_read_crash(std::string const& text)
{
    json j = json::parse(text, nullptr, false);
    if (j.is_discarded() || !j.contains("universes"))
        return "unparsable";
    std::map<std::string, std::vector<double>> first;  // type -> data of its first instance
    for (auto const& u : j["universes"])
    {
        if (!u.contains("surfaces"))
            continue;
        auto const& sf = u["surfaces"];
        auto types = sf.value("types", std::vector<std::string>{});
        auto sizes = sf.value("sizes", std::vector<std::size_t>{});
        auto data = sf.value("data", std::vector<double>{});
        std::size_t k = 0;
        for (std::size_t i = 0; i < types.size() && i < sizes.size(); ++i)
        {
            if (k + sizes[i] > data.size())
                break;
            if (!first.count(types[i]))
                first[types[i]] = std::vector<double>(data.begin() + k, data.begin() + k + sizes[i]);
            k += sizes[i];
        }
    }
    std::vector<std::string> names;
    std::vector<std::string> docs;
    for (auto const& kv : first)
    {
        json d;
        d["_format"] = "ORANGE";
        d["_version"] = 0;
        json u;
        u["_type"] = "unit";
        u["md"]["name"] = "u";
        u["surfaces"] = {{"types", {kv.first}}, {"data", kv.second}, {"sizes", {kv.second.size()}}};
        u["volumes"] = json::array({json{{"faces", {0}}, {"logic", "0"}}});
        u["volume_labels"] = {"v"};
        u["surface_labels"] = {"s"};
        d["universes"] = json::array({u});
        names.push_back(kv.first);
        docs.push_back(d.dump());
    }
    auto st = preflight_batch(docs.size(), [&](std::size_t i) { (void)read_input(docs[i]); });
    std::set<std::string> bad;
    for (std::size_t i = 0; i < docs.size(); ++i)
        if (st[i] != Flight::ok)
            bad.insert("surface-" + names[i]);
    return bad.empty() ? std::string("composite") : join_kinds(bad);
}

// Record a violation for a round trip that killed the process
void report_roundtrip_crash(verif::Report& rep, FlightInfo const& fi, std::string const& text_for_read, json wit)
{
    static char const* const stage_names[] = {"build", "write", "read", "rewrite", "params", "read"};
    std::string stage = stage_names[std::min(fi.stage, 5)];
    std::string what = fi.flight == Flight::hung ? "hang" : "crash";
    std::string key = "C19/" + stage + "-" + what;
    if (stage == "read" && !text_for_read.empty())
        key += "/" + attribute_read_crash(text_for_read);
    wit["stage"] = stage;
    rep.violation(key,
                  "the JSON round trip " + std::string(fi.flight == Flight::hung ? "hangs" : "kills the process")
                      + " in stage '" + stage + "'",
                  std::move(wit));
}

int run_c19(verif::Args const& args)
{
    verif::Report rep("C19", "geobuild", args);
    rep.set_rule(
        "Inputs: (gen) every OrangeInput produced by InputBuilder from the C09 model generator "
        "(random nested units, all primitive kinds incl. involutes, translations / rotations / "
        "reflections, labels with extensions, 5 tolerances); (file) every bundled test/orange/data "
        "and test/geocel/data *.org.json read with operator>> (rect arrays, SCALE exports); (fuzz) "
        "gen/file inputs whose fields are perturbed at structure level (random labels and "
        "extensions, full-precision surface/transform/grid data, all z-orders and flag words, "
        "finite/semi-infinite/infinite/null bounding boxes, every transform type, synthetic "
        "rect arrays, random tolerances). Each input A is written (operator<<), read back "
        "(operator>>) to B, and judged by sub-checks that are separate cases: 10 field groups "
        "of the own bit-exact comparator, byte-wise idempotence of write, the orange-update "
        "path, OrangeParams label maps, and bit-identical navigation traces on 200 rays "
        "(gen/file only). Every round trip runs first in a forked child: a crash or hang is a "
        "violation. A cell is (sub-check x source x surface families x transform types x "
        "special fields present); a field-group sub-check is trivial when the input has no "
        "such field.");
    rep.assume("nlohmann::json and the C++ iostreams are trusted");
    rep.assume("a null bounding box equals any other null box; in rect arrays a zero translation equals 'no "
               "transformation' (documented normalisations N1, N2 in input_compare.hh)");

    ReplaySet replay = load_replay(args.replay);
    if (replay.active)
    {
        // fuzz cases depend on the pool of generated inputs of their run: a replay re-runs
        // the complete procedure for every seed named in the witness file
        std::set<std::uint64_t> seeds;
        for (auto const& c : replay.cases)
            seeds.insert(c.first);
        if (seeds.empty())
            seeds.insert(args.seed);
        verif::Args a = args;
        a.replay.clear();
        int rc = 0;
        for (auto sd : seeds)
        {
            a.seed = sd;
            rc = run_c19(a);  // last result file wins; one seed per replay file in practice
        }
        return rc;
    }
    // per process; the thorough tier runs 8 shards
    std::uint64_t n_gen = args.budget(240, 3000);
    std::uint64_t n_fuzz = args.budget(400, 6000);
    int n_rays = 200;
    bool shard0 = args.get("shard", "0") == "0";

    // ---- bundled files (read in a child first) ----
    std::vector<std::string> paths = bundled_files(), names, texts;
    for (auto const& path : paths)
    {
        names.push_back(path.substr(path.find("/test/")));
        std::ifstream f(path);
        std::stringstream ss;
        ss << f.rdbuf();
        texts.push_back(ss.str());
    }
    auto file_flights = preflight_stages(texts.size(), [&](std::size_t i, MarkFn const& mark) {
        mark(rt_read_file);
        OrangeInput A = read_input(texts[i]);
        roundtrip_dry(A, mark, true);
    });
    std::vector<std::pair<std::string, OrangeInput>> file_inputs;
    for (std::size_t i = 0; i < texts.size(); ++i)
    {
        bool judge = shard0 && !replay.active;  // not seed dependent: first shard only
        std::string const& name = names[i];
        if (file_flights[i].flight != Flight::ok)
        {
            if (judge)
            {
                bool reading_original = file_flights[i].stage == rt_read_file;
                report_roundtrip_crash(rep, file_flights[i], reading_original || file_flights[i].stage == rt_read ? texts[i] : "",
                                       json{{"file", name}, {"seed", args.seed}});
                rep.observe("crashing-file:" + name);
            }
            continue;
        }
        OrangeInput A;
        try
        {
            A = read_input(texts[i]);
        }
        catch (std::exception const& e)
        {
            if (std::getenv("GEOBUILD_DEBUG"))
                std::cerr << "unreadable " << name << ": " << e.what() << "\n";
            if (judge)
            {
                rep.inconclusive("rejected input: bundled file not readable");
                rep.observe("unreadable-file:" + name);
            }
            continue;
        }
        if (judge)
        {
            verif::Rng rng(verif::mix_seed(args.seed, 0xF11E0000ull + i));
            C19Source src{"file", name, json{{"seed", args.seed}, {"file", name}}, true};
            check_roundtrip(A, src, rep, rng, n_rays);
            // orange-update on the original text: read old -> write new must be stable
            // from the first application on
            try
            {
                std::string u1 = update_path(texts[i]);
                std::string u2 = update_path(u1);
                if (u1 != u2)
                    rep.violation("C19/update-path", "orange-update is not idempotent on " + name, json{{"file", name}});
                else
                    rep.held("update-old-file|src=file|" + gb::signature(A).cell());
            }
            catch (std::exception const& e)
            {
                rep.violation("C19/update-path-throws", e.what(), json{{"file", name}});
            }
        }
        file_inputs.emplace_back(name, std::move(A));
    }

    // ---- generated inputs ----
    std::vector<OrangeInput> pool;  // generated inputs kept as bases for fuzzing
    ModelStream stream(args.seed, true);
    for (std::uint64_t idx = 0; idx < n_gen; ++idx)
    {
        if (replay.active && !replay.cases.count({args.seed, idx}))
            continue;
        ModelStream::Item item = stream.get(idx);
        if (item.constructor_rejected)
        {
            rep.inconclusive("rejected input: object constructor");
            continue;
        }
        gb::Model const& m = item.model;
        verif::Rng& rng = item.rng;
        json origin{{"seed", args.seed}, {"index", idx}, {"tolerance", m.tol_name}};
        if (item.flight != Flight::ok && item.stage == rt_build)
        {
            rep.inconclusive("rejected input: construction crashes or hangs (judged by C09)");
            continue;
        }
        BuildResult br = build_input(m, "C19");
        if (!br.input)
        {
            rep.inconclusive(br.why.empty() ? "rejected input" : br.why);
            continue;
        }
        if (item.flight != Flight::ok)
        {
            std::string text;
            if (item.stage >= rt_read)
                text = write_input(*br.input);
            origin["model"] = m.global->describe();
            report_roundtrip_crash(rep, FlightInfo{item.flight, item.stage}, item.stage == rt_read ? text : "", origin);
            // field-level checks that do not need the reader are not possible: next input
            continue;
        }
        C19Source src{"gen", m.global->label, origin, true};
        check_roundtrip(*br.input, src, rep, rng, n_rays);
        if (pool.size() < 64)
            pool.push_back(*br.input);
        else if (rng.coin(0.2))
            pool[rng.integer(0, 63)] = *br.input;
        if (rep.want_sample(4) && br.input->universes.size() > 1)
        {
            json s = src.origin;
            s["universes"] = br.input->universes.size();
            s["signature"] = gb::signature(*br.input).cell();
            s["json_bytes"] = write_input(*br.input).size();
            rep.sample(s, 4);
        }
    }

    // ---- structure-level fuzz (bases: readable bundled files + generated pool) ----
    auto make_fuzz = [&](std::uint64_t idx, OrangeInput& A, std::string& base) -> bool {
        verif::Rng rng(verif::mix_seed(args.seed, idx));
        if (!file_inputs.empty() && (pool.empty() || rng.coin(0.4)))
        {
            auto const& fi = file_inputs[rng.integer(0, std::int64_t(file_inputs.size()) - 1)];
            A = fi.second;
            base = fi.first;
        }
        else if (!pool.empty())
        {
            std::size_t pi = std::size_t(rng.integer(0, std::int64_t(pool.size()) - 1));
            A = pool[pi];
            base = "gen-pool-" + std::to_string(pi);
        }
        else
            return false;
        gb::fuzz_input(A, rng);
        return true;
    };
    constexpr std::uint64_t fuzz_base = 1000000;
    constexpr std::uint64_t fuzz_batch = 64;
    for (std::uint64_t k0 = 0; k0 < n_fuzz; k0 += fuzz_batch)
    {
        std::uint64_t nb = std::min(fuzz_batch, n_fuzz - k0);
        auto fl = preflight_stages(nb, [&](std::size_t i, MarkFn const& mark) {
            OrangeInput A;
            std::string base;
            if (make_fuzz(fuzz_base + k0 + i, A, base))
                roundtrip_dry(A, mark, false);
        });
        for (std::uint64_t i = 0; i < nb; ++i)
        {
            std::uint64_t idx = fuzz_base + k0 + i;
            if (replay.active && !replay.cases.count({args.seed, idx}))
                continue;
            OrangeInput A;
            std::string base;
            if (!make_fuzz(idx, A, base))
                continue;
            json origin{{"seed", args.seed}, {"index", idx}, {"base", base}};
            if (fl[i].flight != Flight::ok)
            {
                std::string text;
                if (fl[i].stage == rt_read)
                    text = write_input(A);
                report_roundtrip_crash(rep, fl[i], text, origin);
                continue;
            }
            verif::Rng rng(verif::mix_seed(args.seed, idx ^ 0x5555));
            C19Source src{"fuzz", base, origin, false};
            check_roundtrip(A, src, rep, rng, 0);
        }
    }
    rep.note("bundled_files", texts.size());
    rep.note("bundled_files_usable", file_inputs.size());
    return rep.finish();
}

}  // namespace

int main(int argc, char** argv)
{
    // failed initialisations are part of what C09 observes; keep the library's per-track
    // error log quiet
    if (!std::getenv("GEOBUILD_DEBUG"))
    {
        setenv("CELER_LOG_LOCAL", "critical", 1);
        setenv("CELER_LOG", "critical", 1);
    }
    auto args = verif::parse_args(argc, argv);
    try
    {
        if (args.property == "C09")
            return run_c09(args);
        if (args.property == "C19")
            return run_c19(args);
        std::cerr << "geobuild_engine: unknown property '" << args.property << "'\n";
        return 2;
    }
    catch (std::exception const& e)
    {
        std::cerr << "geobuild_engine: harness failure: " << e.what() << "\n";
        return 2;
    }
}
